"""Run-time contract monitors: the same contract text the prover uses is evaluated natively (pyvc/native.py) around
the real functions while the real pipeline runs.  This is how *assumed* contracts (dependencies, functions outside
the verified subset) are checked - a bounded stand-in, never counted as proved - and how verifier counterexamples
are replayed."""
import functools
import importlib
import inspect

from pyvc.native import Monitor
from specs import chem

VIOLATIONS = []   # (qualname, clause text, note)
CALLS = {}        # qualname -> number of monitored calls
SKIPPED = {}      # qualname -> calls whose precondition did not hold (contract not applicable)


def spec_DEC(s):
    c = chem.comp(s)
    if c is None:
        return {}
    out = {k: v for k, v in c.items() if k != "Q" and v != 0}
    if c.get("Q", 0) != 0:
        out["Q"] = c["Q"]
    return out


def spec_CMPD(a, b):
    # the four-way verdict function itself is verified deductively (contracts/comparator.py); here its value
    from synrbl.SynProcessor.rsmi_comparator import RSMIComparator
    return RSMIComparator.compare_dicts(dict(a), dict(b))


def spec_CLABEL(r):
    sd = r.split(">>")
    if len(sd) != 2:
        return "error"

    def nc(side):
        t = 0
        for p in side.split("."):
            c = chem.comp(p)
            t += 0 if c is None else c.get("C", 0)
        return t
    a, b = nc(sd[0]), nc(sd[1])
    return "balanced" if a == b else ("products" if a > b else "reactants")


def spec_ISCB(r):
    sd = r.split(">>")
    if len(sd) != 2:
        return False
    a, b = chem.n_carbon(sd[0]), chem.n_carbon(sd[1])
    return a is not None and a == b


_RBF_MEMO = {}


class _Deterministic:
    """value of an uninterpreted function that is only known to be a function: the first observed value is
    remembered per argument tuple, every later observation must agree"""

    def __init__(self, key):
        self.key = key

    def __eq__(self, other):
        return _RBF_MEMO.setdefault(self.key, other) == other

    def __hash__(self):
        return hash(self.key)


def spec_RBF(reaction, label):
    return _Deterministic((reaction, label))


SPECFUNS = {"RBF": spec_RBF, "DEC": spec_DEC, "CMPD": spec_CMPD, "CLABEL": spec_CLABEL, "ISCB": spec_ISCB}

# qualname -> (module, attribute path)
TARGETS = {
    "update_reactants_and_products": [("synrbl.SynUtils.common", "update_reactants_and_products"),
                                      ("synrbl.postprocess", "update_reactants_and_products"),
                                      ("synrbl.rule_based", "update_reactants_and_products"),
                                      ("synrbl.confidence_prediction", "update_reactants_and_products")],
    "Validator.check": [("synrbl.postprocess", "Validator.check")],
    "RSMIDecomposer.data_decomposer": [("synrbl.SynProcessor.rsmi_decomposer", "RSMIDecomposer.data_decomposer")],
    "RSMIComparator.run_parallel": [("synrbl.SynProcessor.rsmi_comparator", "RSMIComparator.run_parallel")],
    "CheckCarbonBalance.check_carbon_balance": [("synrbl.SynProcessor.check_carbon_balance", "CheckCarbonBalance.check_carbon_balance")],
    "ConfidencePredictor.predict": [("synrbl.confidence_prediction", "ConfidencePredictor.predict")],
    "MCSBasedMethod.run": [("synrbl.SynMCSImputer.mcs_based_method", "MCSBasedMethod.run")],
    "impute_reaction": [("synrbl.SynMCSImputer.mcs_based_method", "impute_reaction")],
    "MCSSearch.find": [("synrbl.mcs_search", "MCSSearch.find")],
    "ensemble_mcs": [("synrbl.mcs_search", "ensemble_mcs")],
    "find_graph_dict": [("synrbl.mcs_search", "find_graph_dict")],
    "RuleBasedMethod.run": [("synrbl.rule_based", "RuleBasedMethod.run")],
    "preprocess": [("synrbl.balancing", "preprocess")],
    "merge_stats": [("synrbl.balancing", "merge_stats")],
    "count_boundary_atoms_products_and_calculate_changes": [("synrbl.confidence_prediction", "count_boundary_atoms_products_and_calculate_changes")],
    "calculate_chemical_properties": [("synrbl.confidence_prediction", "calculate_chemical_properties")],
    "SyntheticRuleMatcher.remove_overlapping_solutions": [("synrbl.SynRuleImputer.synthetic_rule_matcher", "SyntheticRuleMatcher.remove_overlapping_solutions")],
    "SyntheticRuleMatcher.rank_solutions": [("synrbl.SynRuleImputer.synthetic_rule_matcher", "SyntheticRuleMatcher.rank_solutions")],
}

_installed = []


def _resolve(mod, path):
    obj = mod
    parts = path.split(".")
    for p in parts[:-1]:
        obj = getattr(obj, p)
    return obj, parts[-1]


def install(reg, only=None):
    """wrap the real functions named in TARGETS with monitors of their contracts"""
    uninstall()
    for q, places in TARGETS.items():
        if only is not None and q not in only:
            continue
        c = reg.contracts.get(q)
        if c is None:
            continue
        mon = Monitor(c, SPECFUNS)
        for modname, path in places:
            try:
                mod = importlib.import_module(modname)
                holder, name = _resolve(mod, path)
                raw = inspect.getattr_static(holder, name)
            except Exception:
                continue
            is_static = isinstance(raw, staticmethod)
            func = raw.__func__ if is_static else raw
            if getattr(func, "__wrapped_by_monitor__", False):
                continue
            wrapper = _make_wrapper(q, c, mon, func)
            setattr(holder, name, staticmethod(wrapper) if is_static else wrapper)
            _installed.append((holder, name, raw))


def uninstall():
    while _installed:
        holder, name, raw = _installed.pop()
        setattr(holder, name, raw)


def _make_wrapper(q, c, mon, func):
    sig = inspect.signature(func)

    @functools.wraps(func)
    def wrapper(*a, **k):
        try:
            ba = sig.bind(*a, **k)
            ba.apply_defaults()
            kwargs = dict(ba.arguments)
        except TypeError:
            return func(*a, **k)
        if any(p.kind in (p.VAR_POSITIONAL, p.VAR_KEYWORD) for p in sig.parameters.values()):
            return func(*a, **k)
        CALLS[q] = CALLS.get(q, 0) + 1
        res, bad, status = mon.call(func, kwargs)
        if status == "skipped":
            SKIPPED[q] = SKIPPED.get(q, 0) + 1
            return func(*a, **k)
        for b in bad:
            VIOLATIONS.append((q, b))
        if status == "raised":
            raise res
        return res
    wrapper.__wrapped_by_monitor__ = True
    return wrapper


def reset():
    VIOLATIONS.clear()
    CALLS.clear()
    SKIPPED.clear()
