"""Native harness around the real Balancer (bounded stand-ins and replay): runs the real pipeline on concrete
reaction lists and evaluates the property-level oracles of specs/chem.py on the returned rows."""
import csv
import io
import json
import logging
import os
import random
import contextlib

from checks.common import REPO
from specs import chem

logging.getLogger("synrbl").setLevel(logging.CRITICAL)
logging.disable(logging.CRITICAL)

_BAL = {}


def balancer(**cfg):
    from synrbl import Balancer
    key = json.dumps(cfg, sort_keys=True)
    b = _BAL.get(key)
    if b is None:
        kw = dict(n_jobs=1)
        kw.update(cfg)
        attrs = {k: kw.pop(k) for k in ("remove_aam",) if k in kw}  # public attributes that are not constructor arguments
        b = Balancer(**kw)
        for k, v in attrs.items():
            setattr(b, k, v)
        _BAL[key] = b
    return b


def rebalance(reactions, stats=None, batch_size=None, **cfg):
    """rows (output_dict=True) of the real Balancer; stdout/stderr of the library are swallowed"""
    b = balancer(**cfg)
    buf = io.StringIO()
    with contextlib.redirect_stdout(buf), contextlib.redirect_stderr(buf):
        return b.rebalance(list(reactions), output_dict=True, stats=stats, batch_size=batch_size)


def validation_reactions(limit=None, seed=0):
    path = os.path.join(REPO, "Data/Validation_set/validation_set.csv")
    out = []
    if os.path.exists(path):
        with open(path) as f:
            for row in csv.DictReader(f):
                r = row.get("reaction") or row.get("reactions")
                if r:
                    out.append(r)
    if limit and len(out) > limit:
        rnd = random.Random(seed)
        out = rnd.sample(out, limit)
    return out


# crafted inputs that exercise the corners named in the property statements
CRAFTED = [
    "CCO>>CC=O", "CC(=O)C>>CC(O)C", "CCO.[O]>>CC=O", "CC(=O)OCC>>CC(=O)O", "CC(=O)OC=C>>CC(=O)O",
    "CCO>>CCO", "C>>C", "[Na+].[Cl-]>>[Na+].[Cl-]", "CC(=O)O.OCC>>CC(=O)OCC.O", "CC(=O)O.OCC>>CC(=O)OCC",
    "[U]>>[Th]", "[U]>>[U]", "[Fr+].[Cl-]>>[Fr]Cl", "CCBr.[OH-]>>CCO", "CCBr.[OH-]>>CCO.[Br-]",
    "c1ccccc1Br.OB(O)c1ccccc1>>c1ccccc1-c1ccccc1", "CC(=O)Cl.N>>CC(=O)N", "CCCC>>CCCCC", "CCO>>CC(=O)O",
    "OCC(O)CO.Cl>>CCCCC", "CCO.OO>>CC=O.OO", "CC.O>>CC.[H][H]", "CC.O>>[H][H].CC", "C=C.[H][H]>>CC",
    "[CH3:1][OH:2]>>[CH3:1][Cl:3]", "CC(=O)OCC.O>>CC(=O)O.CCO", "CC(C)=O.NN>>CC(C)=NN",
    "O=C(O)c1ccccc1.CO>>COC(=O)c1ccccc1", "CC#N.O>>CC(N)=O", "CCOC(=O)CC(=O)OCC>>CCOC(=O)CC(=O)O",
    "C1CCCCC1=O>>C1CCCCC1O", "CC=O>>CCO", "CCN.CC(=O)Cl>>CCNC(C)=O", "N#Cc1ccccc1>>NCc1ccccc1",
    "CS(=O)(=O)Cl.OCC>>CCOS(C)(=O)=O", "CC(=O)OC(C)=O.OCC>>CCOC(C)=O", "BrCCBr>>C=C", "CCI>>CC",
    "C[Si](C)(C)Cl.OCC>>CCO[Si](C)(C)C",
    # spellings that contain the substrings the pipeline uses as markers ('[H]', '.[H]', '.[O]', '.OO', '[Na]' ...)
    "[H]C(=O)c1ccccc1>>OCc1ccccc1", "C#CC=O.[H][H].[H][H]>>CCCO", "[H]C([H])([H])C(=O)C>>CC(O)C", "CC(=O)C.[H][H]>>CC(O)C",
    "[H]OC([H])([H])C>>CC=O", "CCO.OO>>CC(=O)O", "OO.CC=O>>CC(=O)O", "CC(=O)C.[Na+].[BH4-]>>CC(O)C", "[2H]C(=O)c1ccccc1>>OCc1ccccc1",
    "C=CC.[H][H]>>CCC.[H][H]", "CC=O.[H][H].O>>CCO", "[H][H].CC#N>>CCN", "CC(O)C.[O-][Cl+3]([O-])([O-])[O-]>>CC(=O)C",
    # several oxidations / reductions in one molecule (the reagent templates are applied once per site)
    "OCCCCO>>O=CCCC=O", "OCCCO>>O=CCC=O", "CC(O)CC(O)C>>CC(=O)CC(=O)C", "O=CCCC=O>>OC(=O)CCC(=O)O", "O=CCCC=O>>OCCCCO", "CC(=O)CC(=O)C>>CC(O)CC(O)C",
    # validation-set row whose solved result is overwritten by a permanganate template (C01 known finding)
    "C(CC(C=1C=C2C(N(C)C(=N2)CO)=CC=1OC)=O)C.O>>O=C(O)C=1N(C)C=2C(=CC(=C(OC)C=2)C(CCC)=O)N=1",
]


def row_c01(row):
    """solved => parses and balanced in every element and in charge"""
    if not row.get("solved"):
        return None
    b = chem.balanced(row["reaction"])
    if b is None:
        return "solved row whose reaction does not parse: %r" % row["reaction"]
    if not b:
        sd = chem.sides(row["reaction"])
        return "solved (%s) but unbalanced: %s | %s -> %s" % (row.get("solved_by"), row["reaction"], chem.comp(sd[0]), chem.comp(sd[1]))
    return None


def row_c03(row):
    if not row.get("solved"):
        if row["reaction"] != row["input_reaction"]:
            return "declined row returns %r instead of its input %r" % (row["reaction"], row["input_reaction"])
        if not row.get("issue"):
            return "declined row without an issue text: %r" % row["input_reaction"]
    else:
        if row.get("solved_by") not in ("input-balanced", "rule-based", "mcs-based"):
            return "solved row with method %r" % (row.get("solved_by"),)
        if row.get("issue"):
            return "solved row with issue %r" % row.get("issue")
    sd = chem.sides(row["input_reaction"])
    if sd:
        a, b = chem.n_carbon(sd[0]), chem.n_carbon(sd[1])
        if a is not None and b is not None and b > a and row.get("solved"):
            return "products have more carbon than reactants but the row is solved: %r" % row["input_reaction"]
    return None


def row_c02(row):
    """the given molecules are kept (multiset containment per side, molecules compared canonically)"""
    si, so = chem.sides(row["input_reaction"]), chem.sides(row["reaction"])
    if si is None or so is None:
        return None
    for side, (a, b) in zip(("reactant", "product"), zip(si, so)):
        ca, cb = chem.canon_multiset(a), chem.canon_multiset(b)
        for m, n in ca.items():
            if cb.get(m, 0) < n:
                return "%s side lost or altered %r (x%d -> x%d): %s  =>  %s" % (side, m, n, cb.get(m, 0),
                                                                                row["input_reaction"], row["reaction"])
    return None


def row_c04(row, original):
    inp_clean = row["input_reaction"]
    b = chem.balanced(inp_clean)
    if b:
        if not row.get("solved") or row.get("solved_by") != "input-balanced":
            return "balanced input not passed through as input-balanced: %r -> solved=%r by %r" % (
                inp_clean, row.get("solved"), row.get("solved_by"))
        if row["reaction"] != row["input_reaction"]:
            return "balanced input changed: %r -> %r" % (row["input_reaction"], row["reaction"])
    if row.get("solved_by") == "input-balanced" and row.get("solved"):
        if b is not True:
            return "labelled input-balanced but the input is not balanced: %r" % inp_clean
        if row["reaction"] != row["input_reaction"]:
            return "input-balanced row was changed: %r -> %r" % (row["input_reaction"], row["reaction"])
    return None


def no_maps(row):
    import re
    for col in ("reaction", "input_reaction"):
        v = row.get(col)
        if isinstance(v, str) and re.search(r":\d+\]", v):
            return "atom-map number in output column %s: %r" % (col, v)
    return None
