"""C11 - MCS-stage timeouts and failures are contained to the affected reaction."""
import itertools
import multiprocessing
import random

from checks import pipeline as P
from checks.props import pipeline_common as PC

KEYS = ("input_reaction", "reaction", "solved", "solved_by", "confidence", "rules", "issue")
BATCH = ["CC(=O)OCC>>CC(=O)O", "CCO>>CCO", "CC(=O)OC=C>>CC(=O)O", "c1ccccc1Br.OB(O)c1ccccc1>>c1ccccc1-c1ccccc1",
         "CCOC(=O)CC(=O)OCC>>CCOC(=O)CC(=O)O", "CCO>>CC=O", "CC(=O)O.OCC>>CC(=O)OCC", "O=C(O)c1ccccc1.CO>>COC(=O)c1ccccc1",
         "CS(=O)(=O)Cl.OCC>>CCOS(C)(=O)=O", "CCN.CC(=O)Cl>>CCNC(C)=O"]


def proj(r):
    return {k: r.get(k) for k in KEYS}


class Faults:
    """deterministic fault plan: the k-th search job / the k-th fragment job fails in the given way"""

    def __init__(self, search=None, fragment=None):
        self.search = dict(search or {})      # call number -> 'raise' | 'timeout'
        self.fragment = dict(fragment or {})
        self.n_search = 0
        self.n_fragment = 0
        self.hit_ids = set()

    def install(self):
        import synrbl.SynMCSImputer.SubStructure.mcs_process as mp
        import synrbl.SynMCSImputer.MissingGraph.find_graph_dict as fg
        from synrbl.SynMCSImputer.SubStructure.mcs_graph_detector import MCSMissingGraphAnalyzer
        from synrbl.SynMCSImputer.MissingGraph.find_missing_graphs import FindMissingGraphs
        self._orig = (mp.single_mcs, MCSMissingGraphAnalyzer.fit, FindMissingGraphs.find_missing_parts_pairs, mp.single_mcs_safe)
        plan = self
        orig_fit = MCSMissingGraphAnalyzer.fit
        orig_safe = mp.single_mcs_safe
        orig_pairs = FindMissingGraphs.find_missing_parts_pairs

        def fit(reaction_dict, *a, **k):
            plan.n_search += 1
            mode = plan.search.get(plan.n_search)
            if mode == "raise":
                plan.hit_ids.add(reaction_dict.get("id"))
                raise RuntimeError("injected search failure")
            return orig_fit(reaction_dict, *a, **k)

        def safe(data_dict, job_timeout=2, id_col="id", issue_col="issue", **kwargs):
            mode = plan.search.get(plan.n_search + 1)
            if mode == "timeout":
                plan.n_search += 1
                plan.hit_ids.add(data_dict.get(id_col))
                # what the wrapper does when the wait times out
                return {id_col: data_dict[id_col], "mcs_results": [], "sorted_reactants": [],
                        issue_col: "MCS search terminated by timeout."}
            return orig_safe(data_dict, job_timeout=job_timeout, id_col=id_col, issue_col=issue_col, **kwargs)

        def pairs(*a, **k):
            plan.n_fragment += 1
            mode = plan.fragment.get(plan.n_fragment)
            if mode == "raise":
                raise RuntimeError("injected fragment-analysis failure")
            if mode == "timeout":
                raise multiprocessing.TimeoutError()
            return orig_pairs(*a, **k)

        MCSMissingGraphAnalyzer.fit = staticmethod(fit)
        mp.single_mcs_safe = safe
        FindMissingGraphs.find_missing_parts_pairs = staticmethod(pairs)

    def uninstall(self):
        import synrbl.SynMCSImputer.SubStructure.mcs_process as mp
        from synrbl.SynMCSImputer.SubStructure.mcs_graph_detector import MCSMissingGraphAnalyzer
        from synrbl.SynMCSImputer.MissingGraph.find_missing_graphs import FindMissingGraphs
        mp.single_mcs, fit, pairs, safe = self._orig
        MCSMissingGraphAnalyzer.fit = staticmethod(fit)
        FindMissingGraphs.find_missing_parts_pairs = staticmethod(pairs)
        mp.single_mcs_safe = safe


def run_with(batch, faults):
    faults.install()
    try:
        return P.rebalance(batch)
    finally:
        faults.uninstall()


def judge(batch, base, rows, faults):
    """faults: the Faults object after the run (knows which reactions its search faults hit)"""
    if len(rows) != len(batch):
        return "%d rows for %d reactions under injected faults" % (len(rows), len(batch))
    changed_unhit = []
    for j, (r, b, row) in enumerate(zip(batch, base, rows)):
        for f in (P.row_c01, P.row_c03):
            bad = f(row)
            if bad:
                return "under injected faults: " + bad
        if proj(row) != proj(b) and str(j) not in faults.hit_ids:
            changed_unhit.append(r)
    # a fragment-analysis fault cannot be attributed to a reaction from outside: each may change one reaction
    if len(changed_unhit) > len(faults.fragment):
        return "reactions not hit by any injected search fault changed their result: %r (fragment faults injected: %d)" % (
            changed_unhit, len(faults.fragment))
    return None


def replay(d):
    inp = d["input"]
    base = P.rebalance(inp["batch"])
    f = Faults({int(k): v for k, v in inp["search"].items()}, {int(k): v for k, v in inp["fragment"].items()})
    rows = run_with(inp["batch"], f)
    return judge(inp["batch"], base, rows, f) is not None


def check(run):
    run.level = "fault_enumeration"
    PC.deductive(run)
    # the search stage itself, in its own view (one list of records per condition): a raising search and a timed-out search become an
    # issue text on the record of that reaction only; records keep the id of the reaction they were computed for
    run.deductive(["contracts.mcs_process"])
    run.assume("thread pool: sequential model - after AsyncResult.get() times out the abandoned worker thread is assumed not to write the record "
               "any more (ThreadPool.terminate does not stop a running thread; concurrency is outside this family)")
    rnd = random.Random(run.seed)
    batch = BATCH
    base = P.rebalance(batch)
    probe = Faults()
    run_with(batch, probe)
    ns, nf = probe.n_search, probe.n_fragment
    plans = []
    # every single search job failing / timing out, every single fragment job failing / timing out
    for k in range(1, ns + 1):
        plans.append(({k: "raise"}, {}))
        plans.append(({k: "timeout"}, {}))
    for k in range(1, nf + 1):
        plans.append(({}, {k: "raise"}))
        plans.append(({}, {k: "timeout"}))
    if run.tier == "quick":
        plans = rnd.sample(plans, min(len(plans), 14))
    # random subsets
    for _ in range(6 if run.tier == "quick" else 60):
        s = {k: rnd.choice(["raise", "timeout"]) for k in rnd.sample(range(1, ns + 1), rnd.randint(0, min(4, ns)))}
        f = {k: rnd.choice(["raise", "timeout"]) for k in rnd.sample(range(1, nf + 1), rnd.randint(0, min(3, nf)))} if nf else {}
        plans.append((s, f))
    # every search condition of one reaction fails (jobs run condition by condition over the unsolved reactions)
    n_cond = 3
    if ns % n_cond == 0:
        n_uns = ns // n_cond
        for i in range(n_uns):
            for mode in ("raise", "timeout"):
                plans.append(({c * n_uns + i + 1: mode for c in range(n_cond)}, {}))
        if n_uns >= 2:
            plans.append(({c * n_uns + i + 1: "raise" for c in range(n_cond) for i in (0, 1)}, {}))
    plans.append(({k: "timeout" for k in range(1, ns + 1)}, {}))
    plans.append(({}, {k: "raise" for k in range(1, nf + 1)}))
    fails, cases, samples = [], 0, []
    for s, f in plans:
        cases += 1
        fo = Faults(s, f)
        rows = run_with(batch, fo)
        bad = judge(batch, base, rows, fo)
        if bad:
            fails.append(({"kind": "faults", "batch": batch, "search": {str(k): v for k, v in s.items()},
                           "fragment": {str(k): v for k, v in f.items()}}, bad))
        elif len(samples) < 3:
            samples.append({"search_faults": s, "fragment_faults": f,
                            "rows_changed": sum(1 for b, r in zip(base, rows) if proj(b) != proj(r))})
    run.bounded("fault-plans", "batch of %d reactions (%d search jobs, %d fragment jobs): single faults (raise / timeout) on jobs, random subsets, all-fail plans"
                % (len(batch), ns, nf), cases, len(plans), fails[:6], False, samples)
    run.extra["evaluations"] = cases
    run.extra["distinct_nontrivial"] = len(plans)
    run.extra["rule"] = "one case = one fault plan (set of search / fragment-analysis jobs that raise or time out) run through the real Balancer; non-trivial = at least one fault injected"
    run.assume("wall-clock races are not covered: a timeout is injected as the wrapper's timeout outcome; the abandoned worker thread that keeps writing into the returned record is not modelled")
    run.assume("joblib scheduling: n_jobs=1 (in-process) so that the injected faults are deterministic")
