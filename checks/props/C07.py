"""C07 - element, hydrogen and charge accounting of a SMILES is exact."""
from checks.props import c07_native

MODULES = ["contracts.rows", "contracts.externals", "contracts.comparator", "contracts.decomposer"]


def replay(d):
    return c07_native.replay(d)


def check(run):
    run.deductive(MODULES)
    c07_native.data_and_bounded(run)
    from checks import crosscheck
    crosscheck.bounded_part(run, ["contracts.comparator"], ["RSMIComparator.compare_dicts"])
