"""C16 - functional-group recognition depends only on the molecular graph (bounded stand-in)."""
import itertools
import random

from checks.props import c07_native
from specs import chem

SMALL = ["CO", "CCO", "COC", "CC(=O)O", "CC(=O)OC", "CC=O", "CC(C)=O", "CN", "CNC", "CC(N)=O", "C#N", "CC#N", "NO", "CNO", "N=O", "CN=O", "O=NO", "C[N+](=O)[O-]",
         "CSC", "CC(=O)S", "CC(O)=S", "OCO", "COCO", "COCOC", "NC(=O)O", "NC(N)=O", "O=C(O)O", "COC(=O)OC", "CC(=O)OC(C)=O", "C=CO", "C=COC", "OC=CO", "Oc1ccccc1",
         "COc1ccccc1", "Nc1ccccc1", "CNc1ccccc1", "Oc1ccc[nH]1", "c1ccccc1", "c1ccncc1", "C1CCOC1", "C1COCO1", "C1CO1", "C1OCO1", "OC1CCCCC1", "O=C1CCCCC1", "O=C1CCCO1",
         "O=C1CCCN1", "OCCO", "OCC(O)CO", "NCCO", "OCC=O", "OC(=O)CC(=O)O", "CC(O)C(C)=O", "CON", "CONC", "CSSC", "CS", "OC(=O)c1ccccc1", "COC(=O)c1ccccc1O",
         "O=c1cccccc1O", "O[c+]1cccccc1", "Oc1ccccn1", "Oc1cccs1", "OC1=CC=CC=C1", "Oc1ccc2ccccc2c1", "C1=COC=C1", "O=C(C)Oc1ccccc1", "NC(=O)c1ccccc1", "CC(=O)NC",
         "CC(=O)N(C)C", "OC(C)(C)OC", "OC(O)(C)C", "CC(=O)OC=C", "C=CC(=O)OC", "N#CCO", "OCC#N", "O=CO", "O=COC", "NC=O", "CNC=O", "SC=O", "CSC=O", "CC(=S)OC"]


def fg():
    import synrbl.SynUtils.functional_group_utils as f
    return f


def patterns():
    f = fg()
    out = []
    for name, cfg in f.functional_group_config.items():
        for p in cfg.pattern:
            out.append((name, "pattern", p))
        for p in cfg.anti_pattern:
            out.append((name, "anti", p))
    return out


def has_ring(m):
    return m.GetRingInfo().NumRings() > 0


def renumberings(m, rnd, n):
    k = m.GetNumAtoms()
    if k <= 4:
        return [list(p) for p in itertools.permutations(range(k))][1:]
    out = []
    for _ in range(n):
        p = list(range(k))
        rnd.shuffle(p)
        out.append(p)
    return out


def judge_renumbering(smiles, rnd, n):
    from rdkit import Chem
    f = fg()
    m = chem.mol(smiles)
    if m is None:
        return None
    base = {}
    for a in m.GetAtoms():
        if a.GetSymbol() == "C":
            continue
        for name in f.functional_group_config:
            base[(a.GetIdx(), name)] = f.is_functional_group(m, name, a.GetIdx())
    for perm in renumberings(m, rnd, n):
        # new atom i is old atom perm[i]
        m2 = Chem.RenumberAtoms(m, perm)
        new_of_old = {old: new for new, old in enumerate(perm)}
        for (idx, name), want in base.items():
            got = f.is_functional_group(m2, name, new_of_old[idx])
            if got != want:
                return "%s: atom %d (%s) is '%s' = %r, but %r after renumbering %r" % (smiles, idx, m.GetAtomWithIdx(idx).GetSymbol(), name, want, got, perm)
            # the same question the way the merge / expansion rules ask it: about the neighbour atom of a boundary
            got2 = via_rule_property(m2, name, new_of_old[idx])
            if got2 != want:
                return ("%s: atom %d (%s) is '%s' = %r, but the rules' FunctionalGroupProperty says %r for the same atom at index %d after renumbering %r"
                        % (smiles, idx, m.GetAtomWithIdx(idx).GetSymbol(), name, want, got2, new_of_old[idx], perm))
    return None


def via_rule_property(src_mol, group, neighbor_index):
    """FunctionalGroupProperty.check on a boundary whose neighbour atom (in the source molecule) is the atom asked about"""
    from synrbl.SynMCSImputer.rules import FunctionalGroupProperty
    from synrbl.SynMCSImputer.structure import Compound
    c = Compound("C", src_mol=src_mol)
    b = c.add_boundary(0, symbol="C", neighbor_index=neighbor_index)
    return bool(FunctionalGroupProperty(group).check(b, group))


def judge_matches(smiles, pats):
    """pattern_match(...)[0] at an atom <=> RDKit finds an occurrence of the pattern (same elements and bond types) containing it"""
    f = fg()
    m = chem.mol(smiles)
    if m is None:
        return []
    out = []
    for name, kind, p in pats:
        occ = set()
        for match in m.GetSubstructMatches(p, uniquify=False, maxMatches=100000):
            occ.update(match)
        for a in m.GetAtoms():
            got = bool(f.pattern_match(m, a.GetIdx(), p)[0])
            want = a.GetIdx() in occ
            if got != want:
                # known mechanism: over-matching only (a ring-closing bond that is never checked, an acyclic pattern wrapped around a small ring)
                out.append(((has_ring(p) or has_ring(m)) and got and not want, "%s: pattern %s (%s of '%s') at atom %d (%s): matcher says %r, RDKit substructure search says %r"
                            % (smiles, chem.canon(__import__('rdkit').Chem.MolToSmiles(p)), kind, name, a.GetIdx(), a.GetSymbol(), got, want)))
    return out


def replay(d):
    inp = d["input"]
    rnd = random.Random(inp.get("seed", 0))
    if inp["kind"] == "renumber":
        return judge_renumbering(inp["smiles"], rnd, 8) is not None
    return bool(judge_matches(inp["smiles"], patterns()))


def check(run):
    run.level = "other"
    # deductive part: the way the merge / expansion rules ask the question (FunctionalGroupProperty.check): exactly the recogniser's
    # answer for the boundary's neighbour atom, for every index
    run.deductive(["contracts.rules_props"])
    run.explanation = ("bounded stand-in: pattern_match is a recursive search over neighbour permutations of RDKit atom objects with per-branch visited lists; "
                       "the real is_functional_group / pattern_match are compared under atom renumbering and against RDKit's substructure search on a family of "
                       "small molecules (rings, aromatics, every supported group) and corpus molecules")
    rnd = random.Random(run.seed)
    mols = list(SMALL) + c07_native.corpus_molecules(limit=60 if run.tier == "quick" else 1500, seed=run.seed)
    mols = [s for s in mols if chem.mol(s) is not None and chem.mol(s).GetNumAtoms() <= 40]
    fails, cases = [], 0
    for s in mols:
        cases += 1
        bad = judge_renumbering(s, rnd, 3 if run.tier == "quick" else 12)
        if bad and len(fails) < 6:
            fails.append(({"kind": "renumber", "smiles": s, "seed": run.seed}, bad))
    run.bounded("renumbering", "%d molecules (hand-picked group / ring family + corpus), every non-carbon atom x 25 groups, all renumberings for <= 4 atoms else random ones"
                % len(mols), cases, len(set(mols)), fails, False, [{"molecule": mols[3]}])
    pats = patterns()
    ring_fails, fails, cases = [], [], 0
    for s in mols[:len(SMALL) + (20 if run.tier == "quick" else 400)]:
        cases += 1
        for ringy, msg in judge_matches(s, pats):
            (ring_fails if ringy else fails).append(({"kind": "match", "smiles": s}, msg))
    run.bounded("ring-closure-not-checked", "disagreements that involve a ring in the pattern or in the molecule", 0, 0, ring_fails[:1], False)
    run.bounded("match-vs-substructure-search", "%d pattern / anti-pattern structures at every atom of those molecules against RDKit GetSubstructMatches" % len(pats),
                cases, cases, fails[:6], False)
    run.notes.append("ring-related disagreements this run: %d" % len(ring_fails))
