"""C14 - composition-determined outcomes ignore how the SMILES is written."""
import random
from collections import Counter

from checks import pipeline as P
from specs import chem

MARKERS = ["[H]", "[O]", "OO", "[Na]", "[K]", "[Li]", "[H-]", "FF", "ClCl", "BrBr", "II", "ClBr", "ClI", "BrI", "F-F", "Cl-Cl"]
TEMPLATE_SPECIES = None

BASE = ["CCO>>CC=O", "CC(=O)C>>CC(O)C", "CC(=O)OCC>>CC(=O)O.CCO", "CCO.CC(=O)O>>CC(=O)OCC.O", "CO.CO>>COC.O", "CO.CO.O=C(Cl)C(=O)Cl>>COC(=O)C(=O)OC",
        "CC(=O)O.CC(=O)O>>CC(=O)OC(C)=O", "CCBr.[OH-]>>CCO", "CC(=O)Cl.N>>CC(=O)N", "CCN.CC(=O)Cl>>CCNC(C)=O", "c1ccccc1O.CC(=O)Cl>>CC(=O)Oc1ccccc1",
        "CCO.CCO>>CCOCC", "C=C.BrBr>>BrCCBr", "CC#N.O>>CC(N)=O", "CS(=O)(=O)Cl.OCC>>CCOS(C)(=O)=O", "O=C(O)c1ccccc1.CO>>COC(=O)c1ccccc1",
        "CC(=O)OC(C)=O.OCC>>CCOC(C)=O", "CCOC(=O)CC(=O)OCC.O.O>>OC(=O)CC(=O)O", "OCC.OCC.O=C(Cl)Cl>>CCOC(=O)OCC", "NC(=O)c1ccccc1>>N#Cc1ccccc1",
        "CC(C)(C)OC(=O)NC>>CN", "BrCCBr>>C=C", "OCCO.CC(C)=O>>CC1(C)OCCO1", "c1ccccc1.Cl.Cl>>Clc1ccccc1Cl"]


def has_marker(rsmi):
    from rdkit import Chem
    for part in rsmi.replace(">>", ".").split("."):
        c = chem.canon(part) or part
        if any(m in part or m in c for m in MARKERS):
            return True
    return False


FORCE_MAPS = [False]


def marker_vector(rsmi):
    """what the pipeline's string-level marker tests see of a spelling (evaluated on the map-free input text): the known finding
    is that these tests look at whole side strings, so the outcome can follow the position / spelling of a marker-like molecule"""
    from synrbl.SynUtils.chem_utils import remove_atom_mapping
    try:
        a, b = remove_atom_mapping(rsmi).split(">>")
    except Exception:
        return None
    rt, pt = a.split("."), b.split(".")
    return (".[H]" in b, ".[O]" in b, ".OO" in b, "[H]" in pt, "[O]" in pt, "OO" in pt, pt.count("[H]") % 2, pt.count("[O]") % 2,
            any(t in ("[Na]", "[K]", "[Li]", "[H-]") for t in rt), ".[H]" in a, ".[O]" in a, rt.count("[H]") % 2,
            tuple(x in b for x in ("FF", "ClCl", "BrBr", "II", "ClBr", "ClI", "BrI", "F-F", "Cl-Cl")))


def respell(smiles, rnd):
    from rdkit import Chem
    m = chem.mol(smiles)
    if m is None:
        return smiles
    if FORCE_MAPS[0] or rnd.random() < 0.35:
        idx = list(range(1, m.GetNumAtoms() + 1))
        rnd.shuffle(idx)
        for a, i in zip(m.GetAtoms(), idx):
            a.SetAtomMapNum(i)
    try:
        return Chem.MolToSmiles(m, canonical=False, doRandom=rnd.random() < 0.8, kekuleSmiles=rnd.random() < 0.3)
    except Exception:
        return smiles


def variant(rsmi, rnd, permute=True, spell=True):
    sides = []
    for side in rsmi.split(">>"):
        mols = side.split(".")
        if permute:
            rnd.shuffle(mols)
        sides.append(".".join(respell(x, rnd) if spell else x for x in mols))
    return ">>".join(sides)


def added(row):
    si, so = chem.sides(row["input_reaction"]), chem.sides(row["reaction"])
    out = []
    for a, b in zip(si, so):
        d = chem.canon_multiset(b) - chem.canon_multiset(a)
        out.append(d)
    return out


def is_template_choice(a, b):
    """the choice of redox reagent template is exempt: compare only what is not part of a reagent template"""
    return False


def outcome(row):
    if not row.get("solved") or row.get("solved_by") not in ("input-balanced", "rule-based"):
        return ("other", row.get("solved"), row.get("solved_by"))
    return ("determined", row.get("solved_by"), tuple(tuple(sorted(d.items())) for d in added(row)))


def judge(base, rnd, n, **cfg):
    vs = [base] + [variant(base, rnd) for _ in range(n)] + [variant(base, rnd, permute=True, spell=False), variant(base, rnd, permute=False, spell=True)]
    rows_v = P.rebalance(vs, **cfg)
    if len(rows_v) != len(vs):
        return "variants of %r: %d rows for %d inputs" % (base, len(rows_v), len(vs))
    outs = [outcome(r) for r in rows_v]
    ref = next(((v, o) for v, o in zip(vs, outs) if o[0] == "determined"), None)
    if ref is None:
        return None  # no spelling has a composition-determined outcome: outside the property
    v0, o0 = ref
    for v, ov in zip(vs, outs):
        if ov != o0:
            if ov[0] == "determined" and o0[1] == ov[1] == "rule-based" and _same_up_to_template(o0[2], ov[2]):
                continue
            tag = "MARKER " if marker_vector(v0) != marker_vector(v) else ""   # do the string-level marker tests see the two spellings differently?
            return tag + "outcome of %r is %r, of the equivalent %r it is %r" % (v0, o0[1:], v, ov[1:])
    return None


def _same_up_to_template(a, b):
    """added multisets equal after removing redox reagent template species (metal / boron / aluminium containing, [H][H], pyridinium ...)"""
    def strip(ms):
        out = []
        for side in ms:
            keep = []
            for smi, n in side:
                c = chem.comp(smi) or {}
                if any(k in c for k in ("Cr", "Mn", "K", "Na", "Li", "B", "Al", "S")) or smi in ("[H][H]", "c1cc[nH+]cc1", "[Cl-]", "Cl", "O", "[H+]"):
                    continue
                keep.append((smi, n))
            out.append(tuple(keep))
        return tuple(out)
    return strip(a) == strip(b)


def _rng(seed, reaction):
    return random.Random("%s|%s" % (seed, reaction))


def _job(item):
    r, seed, n = item
    try:
        return r, judge(r, _rng(seed, r), n)
    except Exception as e:  # reported for that reaction, not a checker crash
        return r, "raised %r" % (e,)


def replay(d):
    inp = d["input"]
    r = inp["reaction"]
    if inp.get("kind") == "variants-keep-maps":
        FORCE_MAPS[0] = True
        try:
            return judge(r, _rng(inp.get("seed", 0), "aam|" + r), 4, remove_aam=False) is not None
        finally:
            FORCE_MAPS[0] = False
    return judge(r, _rng(inp.get("seed", 0), r), inp.get("n", 6)) is not None


def check(run):
    run.level = "other"
    run.explanation = ("bounded stand-in for the relational claim: the real Balancer is run on a reaction and on random rewritings of it (atom order, kekulised / "
                       "aromatic form, atom maps, molecule order); verdict and added molecules must coincide. Deductive part: the composition-level verdict is a function of the two "
                       "composition maps (compare_dicts / diff_dicts), the maps count every atom of the hydrogen-complete molecule once (decompose), the batch wrappers "
                       "keep positions (data_decomposer, run_parallel, check_carbon_balance) and the carbon label compares sums over all molecule occurrences of each "
                       "side (process_reaction); that RDKit's molecule is independent of the spelling is its own contract and only exercised by the stand-in")
    from checks.props import pipeline_common as PC
    PC.deductive(run)
    from checks import crosscheck
    crosscheck.bounded_part(run, PC.MODULES, ["CheckCarbonBalance.process_reaction", "RSMIComparator.compare_dicts"])
    rnd = random.Random(run.seed)
    pool = list(BASE) + ["CC.O>>CC.[H][H]", "C=CC.[H][H]>>CCC.[H][H]"] + [r for r in P.validation_reactions(40 if run.tier == "quick" else 500, seed=run.seed)]
    fails, marker_fails, cases, det = [], [], 0, 0
    from checks.common import parallel_map
    nvar = 3 if run.tier == "quick" else 10
    uniq = list(dict.fromkeys(pool))
    res, skipped = parallel_map(_job, [(r, run.seed, nvar) for r in uniq], 300 if run.tier == "quick" else 2400, procs=12)
    if skipped:
        run.notes.append("rewritings: %d of %d reactions not finished within the time budget" % (skipped, len(uniq)))
    if len(res) < min(len(uniq), len(BASE)):
        run.undecided("C14/bounded:rewritings", "only %d reactions finished within the budget" % len(res))
    for r, bad in res:
        cases += 1
        if bad:
            (marker_fails if (has_marker(r) and bad.startswith("MARKER ")) else fails).append(({"kind": "variants", "reaction": r, "seed": run.seed, "n": nvar}, bad))
    # the same with atom-map removal switched off (Balancer.remove_aam = False): mapped and unmapped spellings must still agree
    aam_pool = list(BASE[:10]) + ["OCCO.[Na].[Na]>>[O-]CC[O-].[Na+].[Na+]", "CCO.CCO.[K].[K]>>CC[O-].CC[O-].[K+].[K+]", "OCCCO.[Li].[Li]>>[O-]CCC[O-].[Li+].[Li+]",
                                   "CC(C)O.[Na]>>CC(C)[O-].[Na+]"]
    aam_fails, aam_cases = [], 0
    for r in aam_pool:
        aam_cases += 1
        FORCE_MAPS[0] = True   # every molecule of every variant carries atom maps (the base spelling carries none)
        try:
            bad = judge(r, _rng(run.seed, "aam|" + r), 4, remove_aam=False)
        except Exception as e:
            bad = "raised %r" % (e,)
        finally:
            FORCE_MAPS[0] = False
        if bad:
            aam_fails.append(({"kind": "variants-keep-maps", "reaction": r, "seed": run.seed}, "remove_aam=False: " + bad))
    run.bounded("rewritings-with-atom-maps-kept", "%d reactions (alkali-metal alkoxide formations included) against mapped / reordered rewritings with Balancer.remove_aam = False"
                % len(aam_pool), aam_cases, len(aam_pool), aam_fails[:4], False)
    run.bounded("marker-like-molecules", "reactions that contain molecules whose text contains the pipeline's marker substrings", 0, 0, marker_fails[:1], False)
    run.bounded("rewritings", "%d constructed reactions (repeated molecules included) + %d corpus reactions, each against 5-12 random rewritings"
                % (len(BASE), len(pool) - len(BASE)), cases, len(set(pool)), fails[:6], False, [{"reaction": BASE[4], "variant": variant(BASE[4], rnd)}])
