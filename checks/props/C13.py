"""C13 - the confidence threshold only demotes low-confidence MCS results."""
import ast
import math
import os

from checks import pipeline as P
from checks.common import REPO
from checks.props import pipeline_common as PC

ROWKEYS = ("reaction", "solved", "solved_by", "confidence", "rules", "issue", "input_reaction")


def threshold_reads():
    """syntactic frame: where is the threshold read?  (confidence must not depend on it)"""
    out = []
    src = open(os.path.join(REPO, "synrbl/confidence_prediction.py")).read()
    tree = ast.parse(src)
    for fn in ast.walk(tree):
        if isinstance(fn, ast.FunctionDef) and fn.name == "predict":
            for n in ast.walk(fn):
                if isinstance(n, ast.Name) and n.id == "threshold" and isinstance(n.ctx, ast.Load):
                    out.append(("confidence_prediction.py", n.lineno))
    src = open(os.path.join(REPO, "synrbl/balancing.py")).read()
    for fn in ast.walk(ast.parse(src)):
        if isinstance(fn, ast.FunctionDef):
            for n in ast.walk(fn):
                if isinstance(n, ast.Attribute) and n.attr == "confidence_threshold" and isinstance(n.ctx, ast.Load):
                    out.append(("balancing.py:" + fn.name, n.lineno))
    return out


def compare(base, other, t):
    """base: row at threshold 0, other: row at threshold t"""
    if base.get("solved_by") == "mcs-based" and base.get("solved"):
        c = base.get("confidence")
        if other.get("confidence") != c:
            return "confidence depends on the threshold: %r at t=0, %r at t=%r" % (c, other.get("confidence"), t)
        if c is None or not (0 <= c <= 1):
            return "confidence %r not in [0,1]" % (c,)
        if bool(other.get("solved")) != (c >= t):
            return "confidence %r, threshold %r, solved=%r" % (c, t, other.get("solved"))
        if not other.get("solved"):
            iss = other.get("issue") or ""
            if "{:.2%}".format(t) not in iss:
                return "demoted row's issue %r does not name the threshold %r" % (iss, t)
            if other.get("reaction") != base.get("reaction"):
                return "demoted row's reaction changed"
        return None
    for k in ROWKEYS:
        if base.get(k) != other.get(k):
            return "row not solved by the MCS method differs between t=0 and t=%r in %s: %r vs %r" % (t, k, base.get(k), other.get(k))
    return None


def replay(d):
    inp = d["input"]
    if inp.get("kind") == "threshold-cached":
        import shutil, tempfile
        d = tempfile.mkdtemp(prefix="c13cache_")
        try:
            base = {i: r for i, r in zip(inp["reactions"], P.rebalance(inp["reactions"], confidence_threshold=0))}
            for t in inp["ts"]:
                rows = P.rebalance(inp["reactions"], confidence_threshold=t, cache=True, cache_dir=d)
                if any(compare(base[i], row, t) for i, row in zip(inp["reactions"], rows)):
                    return True
            return False
        finally:
            shutil.rmtree(d, ignore_errors=True)
    if inp.get("kind") != "threshold":
        return True
    b = P.rebalance([inp["reaction"]], confidence_threshold=0)[0]
    o = P.rebalance([inp["reaction"]], confidence_threshold=inp["t"])[0]
    return compare(b, o, inp["t"]) is not None


_PICK = []


def _sweep_one(t):
    try:
        return t, P.rebalance(_PICK, confidence_threshold=t), None
    except Exception as e:  # reported as a failure of that threshold, not a checker crash
        return t, None, repr(e)


def check(run):
    PC.deductive(run)
    reads = threshold_reads()
    # in Balancer: one read to pass it to predict, and (since the cache fix) one read for the cache key
    bal = sorted(r[0] for r in reads if r[0].startswith("balancing.py"))
    ok = len([r for r in reads if r[0] == "confidence_prediction.py"]) == 2 and \
        bal.count("balancing.py:__run_pipeline") == 1 and all(b in ("balancing.py:__run_pipeline", "balancing.py:__try_cache") for b in bal)
    run.data_obligation("frame:threshold-reads", ok,
                        "the threshold is read only by the comparison and the issue text in predict, and Balancer reads "
                        "confidence_threshold only to pass it to predict (found: %s)" % reads)
    reactions = PC.inputs(run, 40, 400)
    pairs, viol, stats, calls = PC.run_pipeline(run, reactions, monitors=False)
    mcs = [(i, r) for i, r in pairs if r.get("solved_by") == "mcs-based" and r.get("solved")]
    others = [(i, r) for i, r in pairs if not (r.get("solved_by") == "mcs-based" and r.get("solved"))][:6]
    pick = mcs[:10 if run.tier == "quick" else 80] + others
    confs = sorted({r["confidence"] for _, r in mcs[:10 if run.tier == "quick" else 80] if r.get("confidence") is not None})
    ts = {0.0, 0.5, 1.0}
    for c in confs[:3 if run.tier == "quick" else 20]:
        ts |= {c, math.nextafter(c, 2.0), math.nextafter(c, -1.0)}
    ts = sorted(t for t in ts if 0 <= t <= 1)
    fails, cases = [], 0
    base = {i: r for i, r in pick}
    from checks.common import parallel_map
    _PICK[:] = [i for i, _ in pick]
    # thresholds are independent runs of the real pipeline: one forked worker each, within a wall-clock budget; the
    # boundary thresholds (an observed confidence and its float neighbours) come first
    order = [t for t in ts if t not in (0.0, 0.5, 1.0)] + [0.0, 0.5, 1.0]
    res, skipped = parallel_map(_sweep_one, order, 240 if run.tier == "quick" else 2400, procs=12)
    if skipped:
        run.notes.append("threshold sweep: %d of %d thresholds not finished within the time budget" % (skipped, len(order)))
    if len(res) < min(len(order), 6):
        run.undecided("C13/bounded:threshold-sweep", "only %d thresholds finished within the budget" % len(res))
    ts = sorted(t for t, _, _ in res)
    suspects = []
    for t, rows, err in sorted(res, key=lambda x: x[0]):
        if err is not None:
            fails.append(({"kind": "threshold", "reaction": _PICK[0], "t": t}, "rebalance raised %s at threshold %r" % (err, t)))
            continue
        for (i, _), row in zip(pick, rows):
            cases += 1
            bad = compare(base[i], row, t)
            if bad:
                suspects.append((i, t, bad))
    # the MCS stage works under wall-clock time limits: under the load of the parallel sweep a large reaction can lose a search that it
    # wins when run alone (that is C11 / C06 territory, not a dependence on the threshold).  A mismatch is therefore confirmed serially -
    # the reaction alone at threshold 0 and at t, back to back - before it is reported
    unstable = 0
    for i, t, bad in suspects[:40]:
        b0 = P.rebalance([i], confidence_threshold=0)
        bt = P.rebalance([i], confidence_threshold=t)
        bad2 = compare(b0[0], bt[0], t) if len(b0) == 1 and len(bt) == 1 else "row lost"
        if bad2:
            fails.append(({"kind": "threshold", "reaction": i, "t": t}, bad2))
        else:
            unstable += 1
    if unstable:
        run.notes.append("threshold sweep: %d mismatches seen under parallel load did not reproduce serially (search time limits; not reported)" % unstable)
    run.bounded("threshold-sweep", "%d reactions (%d with an MCS-based result) x %d thresholds incl. observed confidences and their float neighbours"
                % (len(pick), len(pick) - len(others), len(ts)), cases, len(pick) * len(ts), fails[:8], False,
                [{"thresholds": ts[:8], "confidences": confs[:5]}])
    # the same relation with the result cache switched on and shared between the runs (a threshold change must never be served a
    # row computed under another threshold)
    import shutil
    import tempfile
    cfails, ccases = [], 0
    d = tempfile.mkdtemp(prefix="c13cache_")
    try:
        seq = []
        for c in confs[:2 if run.tier == "quick" else 8]:
            seq += [c, math.nextafter(c, 2.0), math.nextafter(c, -1.0), min(1.0, c + 0.0004), max(0.0, c - 0.0004)]
        seq = [t for t in seq if 0 <= t <= 1]
        sub = [i for i, _ in mcs[:6]] + [i for i, _ in others[:2]]
        for t in seq:
            try:
                rows = P.rebalance(sub, confidence_threshold=t, cache=True, cache_dir=d)
            except Exception as e:
                cfails.append(({"kind": "threshold-cached", "reactions": sub, "ts": seq, "t": t}, "cached run raised %r at threshold %r" % (e, t)))
                continue
            for i, row in zip(sub, rows):
                ccases += 1
                bad = compare(base[i], row, t)
                if bad:
                    cfails.append(({"kind": "threshold-cached", "reactions": sub, "ts": seq, "t": t}, "with a shared cache: " + bad))
    finally:
        shutil.rmtree(d, ignore_errors=True)
    run.bounded("threshold-sweep-with-cache", "%d reactions x %d thresholds around observed confidences, result cache on and shared between the runs"
                % (len(sub), len(seq)), ccases, max(1, len(seq)), cfails[:5], False)
    run.trust("xgboost/numpy: predict_proba is a function of the feature rows with values in [0,1] (assumed contract CONF)")
