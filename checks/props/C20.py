"""C20 - tautomer standardisation conserves atoms and returns valid SMILES (bounded stand-in)."""
import itertools
import random

from specs import chem

R = ["[H]", "C", "CC", "c1ccccc1", "C(C)C", "CO", "CN"]


def standardize(s):
    from synrbl.SynChemImputer.molecule_standardizer import MoleculeStandardizer
    global _STD
    try:
        _STD
    except NameError:
        _STD = MoleculeStandardizer()
    return _STD(s)


def sub(r):
    return "" if r == "[H]" else "(%s)" % r


def families():
    """(class, smiles): 'simple' = at most one enol / gem-diol / hemiketal site, neutral, no metal"""
    out = []
    for a, b, c in itertools.product(R[:5], repeat=3):
        out.append(("simple", "OC%s=C%s%s" % (sub(a), sub(b), sub(c) if c != "[H]" else "")))      # enol
    for a, b in itertools.product(R, repeat=2):
        out.append(("simple", "OC(O)%s%s" % (sub(a), sub(b))))                                     # gem-diol
        out.append(("simple", "COC(O)%s%s" % (sub(a), sub(b))))                                    # hemiketal / hemiacetal
    plain = ["CCO", "CC(=O)C", "CC(=O)O", "CC(=O)OC", "COC", "CCN", "c1ccccc1O", "OCCO", "CC(C)(C)O", "C=CC", "CC=O", "O", "CO", "OC1CCCCC1",
             "CC(O)CO", "C1CCOC1", "CC(=O)N", "OCC(O)CO", "C=CCO", "CC(O)C(C)O"]
    out += [("simple", s) for s in plain]
    # explicit-H / isotope / atom-map spellings of simple sites
    out += [("simple", s) for s in ["CC([OH])(O)C", "CC([18OH])(O)C", "CC(O)([18OH])C", "[CH3:1][C:2]([OH:3])([OH:4])[CH3:5]", "C=C([OH])C", "[CH2:1]=[C:2]([OH:3])[CH3:4]",
                                     "C[13C]([OH])(O)CC", "[2H]OC(O)(C)C", "OC(=C)C", "CC(O)=C", "C(=C)(O)C"]]
    # mixtures of a simple site with plain molecules
    for s in ["C=C(O)C", "CC(O)(O)C", "COC(C)(O)C", "OC=CC"]:
        for p in plain[:8]:
            out.append(("simple", s + "." + p))
            out.append(("simple", p + "." + s))
    # several sites, charged oxygens, metal alkoxides (the statement includes them; known to fail today)
    hard = ["C=C[O-]", "C=C(O)O", "OC(O)=CC=C(O)O", "OC(O)(O)C", "CC(O)(O)O", "OC=CO", "[Na]OC(C)(O)C", "C=C(O)C.CC(O)(O)C", "OC(C)=CC(O)=C", "OC(O)CC(O)O",
            "C=C(O)CC(O)(O)C", "[O-]C(O)(C)C", "C=C(O[Na])C", "OC(O)(C)C(O)(O)C", "OC=CC=CO", "CC(O)(O)C(C)=C(C)O", "C=C(O)C.C=C(O)C", "CC(O)(O)C.CC(O)(O)C",
            "[O-]C=C.[Na+]", "OC(O)C=C(O)C"]
    out += [("hard", s) for s in hard]
    return out


def reorders(s, rnd, n):
    from rdkit import Chem
    m = chem.mol(s)
    if m is None:
        return []
    res = set()
    for _ in range(n * 3):
        try:
            res.add(Chem.MolToSmiles(m, canonical=False, doRandom=True))
        except Exception:
            pass
        if len(res) >= n:
            break
    return sorted(res)


def enol_heuristic_applies(s):
    """standardize_enol tells the two enol carbons apart by index adjacency to the oxygen (|i - o| == 1): true when
    that heuristic identifies the oxygen-bearing carbon correctly for every enol site of s in s's own atom numbering"""
    from rdkit import Chem
    m = chem.mol(s)
    if m is None:
        return True
    patt = Chem.MolFromSmarts("[OX2H1,OX2H0;!$(O-[#6]=O)]-[CX3]=[CX3]")
    for o, c2, c1 in m.GetSubstructMatches(patt):
        if not (abs(c2 - o) == 1 and abs(c1 - o) != 1):
            return False
    return True


def has_alkoxy_hemiketal(s):
    """a carbon bearing a hydroxyl and an alkoxy oxygen: standardize_hemiketal makes whichever oxygen fgutils lists
    first the carbonyl oxygen, which is wrong when that is the alkoxy oxygen"""
    from rdkit import Chem
    m = chem.mol(s)
    if m is None:
        return False
    return m.HasSubstructMatch(Chem.MolFromSmarts("[OX2H1]-[CX4]-[OX2H0]-[#6]"))


def explicit_h_known(s):
    """an enol oxygen written as a bracket atom with an explicit H count, or a site oxygen bonded to a hydrogen that is
    a graph atom ([2H]): the bond surgery does not adjust these hydrogens"""
    from rdkit import Chem
    m = chem.mol(s)
    if m is None:
        return False
    for o, c2, c1 in m.GetSubstructMatches(Chem.MolFromSmarts("[OX2]-[CX3]=[CX3]")):
        a = m.GetAtomWithIdx(o)
        if a.GetNumExplicitHs() > 0 or a.GetNoImplicit():
            return True
    for (o,) in m.GetSubstructMatches(Chem.MolFromSmarts("[O;$(O-[CX4]-[OX2]),$(O-[CX3]=[CX3])]")):
        if any(n.GetAtomicNum() == 1 for n in m.GetAtomWithIdx(o).GetNeighbors()):
            return True
    return False


def judge(s):
    want = chem.comp(s)
    if want is None:
        return None
    try:
        out = standardize(s)
    except Exception as e:
        return "raised %s: %s" % (type(e).__name__, str(e)[:120])
    got = chem.comp(out) if isinstance(out, str) else None
    if got is None:
        return "result %r is not a parsable SMILES" % (out,)
    if not chem.comp_eq(got, want):
        return "composition changed: %r %s -> %r %s" % (s, want, out, got)
    try:
        again = standardize(out)
    except Exception as e:
        return "second application raised %s on %r" % (type(e).__name__, out)
    if chem.canon(again) != chem.canon(out):
        return "not idempotent: %r -> %r -> %r" % (s, out, again)
    # the same instance asked again about the same string (the pipeline keeps one standardiser for a whole run)
    try:
        repeat = standardize(s)
    except Exception as e:
        return "a repeated call on %r raised %s: %s" % (s, type(e).__name__, str(e)[:100])
    if repeat != out:
        return "a repeated call on %r gives %r instead of %r" % (s, repeat, out)
    return None


def replay(d):
    return judge(d["input"]["smiles"]) is not None


def check(run):
    run.level = "other"
    run.explanation = ("bounded stand-in: atom conservation after RemoveBond/AddBond/SetNumExplicitHs/SanitizeMol depends on RDKit's implicit-hydrogen "
                       "recomputation, which no contract here models; the real MoleculeStandardizer is run on enumerated enol / gem-diol / hemiketal families, "
                       "plain molecules, explicit-H / isotope / atom-map spellings, mixtures and random atom orders")
    rnd = random.Random(run.seed)
    fails, hard_fails, order_fails, alkoxy_fails, exph_fails, cases, distinct = [], [], [], [], [], 0, set()
    samples = []
    n_ord = 2 if run.tier == "quick" else 8
    for cls, s in families():
        if chem.mol(s) is None:
            continue
        for v in [s] + reorders(s, rnd, n_ord):
            if v in distinct:
                continue
            distinct.add(v)
            cases += 1
            bad = judge(v)
            if bad:
                if cls == "simple" and not enol_heuristic_applies(v):
                    order_fails.append(({"kind": "smiles", "smiles": v}, "%s: %s" % (v, bad)))
                elif cls == "simple" and explicit_h_known(v):
                    exph_fails.append(({"kind": "smiles", "smiles": v}, "%s: %s" % (v, bad)))
                elif cls == "simple" and has_alkoxy_hemiketal(v):
                    alkoxy_fails.append(({"kind": "smiles", "smiles": v}, "%s: %s" % (v, bad)))
                else:
                    (fails if cls == "simple" else hard_fails).append(({"kind": "smiles", "smiles": v}, "%s: %s" % (v, bad)))
            elif len(samples) < 3 and cls == "simple" and "=" in v:
                try:
                    samples.append({"input": v, "result": standardize(v)})
                except Exception:
                    pass
    run.bounded("enol-index-adjacency", "simple enols written in an atom order where the oxygen is not numbered next to its carbon", 0, 0, order_fails[:1], False)
    run.bounded("hemiketal-alkoxy-oxygen", "hemiketals / hemiacetals (a carbon bearing OH and OR)", 0, 0, alkoxy_fails[:1], False)
    run.bounded("site-oxygen-explicit-hydrogen", "enol oxygens with an explicit H count / site oxygens bonded to a hydrogen graph atom", 0, 0, exph_fails[:1], False)
    run.bounded("multi-site-or-charged", "inputs with several enol / gem-diol sites, charged oxygens or metal alkoxides", 0, 0, hard_fails[:1], False)
    run.bounded("simple-sites", "enols R-C(O)=C(R)R over 5 substituents, gem-diols and hemiketals over 7x7 substituents, 20 plain molecules, explicit-H / isotope / "
                "atom-map spellings, mixtures; each in %d random atom orders" % n_ord, cases, len(distinct), fails[:8], False, samples)
    run.notes.append("failing inputs of the multi-site / charged class this run: %d" % len(hard_fails))
    run.assume("fgutils.FGQuery depends on the hash seed of the process (set iteration order); the checks run with PYTHONHASHSEED=0")
