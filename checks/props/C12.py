"""C12 - result caching is transparent across runs, configurations and crashes."""
import ast
import glob
import json
import os
import random
import shutil
import tempfile

from checks import pipeline as P
from checks.common import REPO
from checks.props import pipeline_common as PC

KEYS = ("input_reaction", "reaction", "solved", "solved_by", "confidence", "rules", "issue")
REACTIONS = ["CCO>>CC=O", "CC(=O)OCC>>CC(=O)O", "CCO>>CCO", "CC(=O)OC=C>>CC(=O)O", "CCBr.[OH-]>>CCO", "CC(=O)Cl.N>>CC(=O)N",
             "c1ccccc1Br.OB(O)c1ccccc1>>c1ccccc1-c1ccccc1", "CC(=O)O.OCC>>CC(=O)OCC"]


def proj(rows):
    return [{k: r.get(k) for k in KEYS} for r in rows]


def run(reactions, cache_dir=None, t=0, batch_size=None):
    """fresh Balancer each time (a new process would build one too)"""
    from synrbl import Balancer
    import contextlib, io
    st = {}
    b = Balancer(n_jobs=1, confidence_threshold=t, cache=cache_dir is not None, cache_dir=cache_dir, batch_size=batch_size)
    buf = io.StringIO()
    with contextlib.redirect_stdout(buf), contextlib.redirect_stderr(buf):
        rows = b.rebalance(list(reactions), output_dict=True, stats=st)
    return proj(rows), st


def key_arguments():
    """which configuration fields reach the cache key (read from the real call in balancing.py)"""
    src = open(os.path.join(REPO, "synrbl/balancing.py")).read()
    found = set()
    for n in ast.walk(ast.parse(src)):
        if isinstance(n, ast.Call) and isinstance(n.func, ast.Attribute) and n.func.attr == "get_hash_key":
            seg = ast.get_source_segment(src, n) or ""
            for f in ("confidence_threshold", "reaction_col", "id_col", "remove_aam", "batch"):
                if f in seg:
                    found.add(f)
    return found


def history_ok(steps):
    """steps: list of (reactions, threshold, batch_size); each run with a shared cache dir must equal its uncached run"""
    d = tempfile.mkdtemp(prefix="c12_")
    try:
        for i, (rs, t, bs) in enumerate(steps):
            ref = run(rs, None, t, bs)
            got = run(rs, d, t, bs)
            if got != ref:
                return "step %d (threshold %r, batch size %r): cached run differs from the uncached run: %r vs %r" % (i, t, bs, got[0][:2], ref[0][:2])
        return None
    finally:
        shutil.rmtree(d, ignore_errors=True)


def crash_ok(rs, t, mode, frac):
    """simulate a run killed while writing its cache entry, then run again"""
    d = tempfile.mkdtemp(prefix="c12c_")
    try:
        ref = run(rs, None, t)
        run(rs, d, t)
        files = sorted(glob.glob(os.path.join(d, "*.cache")))
        if not files:
            return "no cache entry was written"
        full = open(files[0]).read()
        cut = full[:int(len(full) * frac)]
        if mode == "final-truncated":          # what an in-place write leaves behind
            open(files[0], "w").write(cut)
        elif mode == "tmp-left-behind":        # what an atomic write leaves behind
            os.remove(files[0])
            open(files[0] + ".tmp", "w").write(cut)
        elif mode == "absent":
            os.remove(files[0])
        try:
            got = run(rs, d, t)
        except Exception as e:
            return "run after a crash (%s, %.0f%% written) raised %r" % (mode, 100 * frac, e)
        if got != ref:
            return "run after a crash (%s, %.0f%% written) differs from the uncached run" % (mode, 100 * frac)
        got2 = run(rs, d, t)
        if got2 != ref:
            return "second run after a crash (%s) differs from the uncached run" % mode
        return None
    finally:
        shutil.rmtree(d, ignore_errors=True)


def replay(d):
    inp = d["input"]
    if inp["kind"] == "history":
        return history_ok([tuple(s) for s in inp["steps"]]) is not None
    if inp["kind"] == "crash":
        return crash_ok(inp["reactions"], inp["t"], inp["mode"], inp["frac"]) is not None
    return True


def check(run_):
    run_.level = "other"
    run_.explanation = ("bounded: histories of runs over a shared cache directory and simulated crash points of the cache write on the real "
                        "Balancer, each compared with the uncached run; plus a syntactic obligation on what reaches the cache key")
    args = key_arguments()
    run_.data_obligation("frame:cache-key-covers-configuration",
                         {"batch", "confidence_threshold", "reaction_col", "id_col", "remove_aam"} <= args,
                         "the cache key is computed from the batch and from every configuration field that influences the result (found: %s)" % sorted(args))
    rnd = random.Random(run_.seed)
    A, B = REACTIONS[:4], REACTIONS[2:7]
    histories = [
        [(A, 0, None), (A, 0, None)],
        [(A, 0, None), (A, 0.9, None), (A, 0, None)],
        [(A, 0.9, None), (A, 0, None)],
        [(A, 0, 2), (B, 0, 2), (A, 0, 3)],
        [(A, 0, None), (B, 0.5, 2), (A + B, 0.5, 2), (B, 0, 2)],
    ]
    if run_.tier != "quick":
        for _ in range(6):
            histories.append([(rnd.sample(REACTIONS, rnd.randint(2, 6)), rnd.choice([0, 0.3, 0.9, 1.0]), rnd.choice([None, 1, 2, 3]))
                              for _ in range(rnd.randint(2, 4))])
    fails, cases = [], 0
    for h in histories:
        cases += len(h)
        bad = history_ok(h)
        if bad:
            fails.append(({"kind": "history", "steps": [list(s) for s in h]}, bad))
    run_.bounded("histories", "%d run sequences over a shared cache directory (same / overlapping batches, thresholds 0..1, batch sizes)" % len(histories),
                 cases, len(histories) * 2, fails[:4], False, [{"history": [[len(s[0]), s[1], s[2]] for s in histories[1]]}])
    fails, cases = [], 0
    fracs = [0.0, 0.37, 0.99] if run_.tier == "quick" else [0.0, 0.01, 0.2, 0.37, 0.5, 0.8, 0.99]
    for mode in ("final-truncated", "tmp-left-behind", "absent"):
        for f in (fracs if mode != "absent" else [0.0]):
            cases += 1
            bad = crash_ok(A[:3], 0, mode, f)
            if bad:
                fails.append(({"kind": "crash", "reactions": A[:3], "t": 0, "mode": mode, "frac": f}, bad))
    run_.bounded("crash-points", "cache entry absent / truncated at %d prefixes under the final name and under the temporary name" % len(fracs),
                 cases, cases, fails[:4], False)
    run_.assume("real process kills, buffering, directory fsync and concurrent writers are not modelled: a crash is simulated by the file state it leaves behind")
