"""C12 - result caching is transparent across runs, configurations and crashes."""
import ast
import glob
import json
import os
import random
import shutil
import tempfile

from checks import pipeline as P
from checks.common import REPO
from checks.props import pipeline_common as PC

KEYS = ("input_reaction", "reaction", "solved", "solved_by", "confidence", "rules", "issue")
REACTIONS = ["CCO>>CC=O", "CC(=O)OCC>>CC(=O)O", "CCO>>CCO", "CC(=O)OC=C>>CC(=O)O", "CCBr.[OH-]>>CCO", "CC(=O)Cl.N>>CC(=O)N",
             "c1ccccc1Br.OB(O)c1ccccc1>>c1ccccc1-c1ccccc1", "CC(=O)O.OCC>>CC(=O)OCC"]


def proj(rows):
    return [{k: r.get(k) for k in KEYS} for r in rows]


def run(reactions, cache_dir=None, t=0, batch_size=None):
    """fresh Balancer each time (a new process would build one too)"""
    from synrbl import Balancer
    import contextlib, io
    st = {}
    b = Balancer(n_jobs=1, confidence_threshold=t, cache=cache_dir is not None, cache_dir=cache_dir, batch_size=batch_size)
    buf = io.StringIO()
    with contextlib.redirect_stdout(buf), contextlib.redirect_stderr(buf):
        rows = b.rebalance(list(reactions), output_dict=True, stats=st)
    return proj(rows), st


def key_arguments():
    """which configuration fields reach the cache key (read from the real call in balancing.py)"""
    src = open(os.path.join(REPO, "synrbl/balancing.py")).read()
    found = set()
    for n in ast.walk(ast.parse(src)):
        if isinstance(n, ast.Call) and isinstance(n.func, ast.Attribute) and n.func.attr == "get_hash_key":
            seg = ast.get_source_segment(src, n) or ""
            for f in ("confidence_threshold", "reaction_col", "id_col", "remove_aam", "batch"):
                if f in seg:
                    found.add(f)
    return found


def history_ok(steps):
    """steps: list of (reactions, threshold, batch_size); each run with a shared cache dir must equal its uncached run"""
    d = tempfile.mkdtemp(prefix="c12_")
    try:
        for i, (rs, t, bs) in enumerate(steps):
            ref = run(rs, None, t, bs)
            try:
                got = run(rs, d, t, bs)
            except Exception as e:
                return "step %d (threshold %r, batch size %r): the cached run raised %r" % (i, t, bs, e)
            if got != ref:
                return "step %d (threshold %r, batch size %r): cached run differs from the uncached run: %r vs %r" % (i, t, bs, got[0][:2], ref[0][:2])
        return None
    finally:
        shutil.rmtree(d, ignore_errors=True)


def crash_ok(rs, t, mode, frac):
    """simulate a run killed while writing its cache entry, then run again"""
    d = tempfile.mkdtemp(prefix="c12c_")
    try:
        ref = run(rs, None, t)
        try:
            run(rs, d, t)
        except Exception as e:
            return "the first cached run raised %r" % (e,)
        files = sorted(glob.glob(os.path.join(d, "*.cache")))
        if not files:
            return "no cache entry was written"
        full = open(files[0]).read()
        cut = full[:int(len(full) * frac)]
        if mode == "final-truncated":          # what an in-place write leaves behind
            open(files[0], "w").write(cut)
        elif mode == "tmp-left-behind":        # what an atomic write leaves behind
            os.remove(files[0])
            open(files[0] + ".tmp", "w").write(cut)
        elif mode == "absent":
            os.remove(files[0])
        try:
            got = run(rs, d, t)
        except Exception as e:
            return "run after a crash (%s, %.0f%% written) raised %r" % (mode, 100 * frac, e)
        if got != ref:
            return "run after a crash (%s, %.0f%% written) differs from the uncached run" % (mode, 100 * frac)
        got2 = run(rs, d, t)
        if got2 != ref:
            return "second run after a crash (%s) differs from the uncached run" % mode
        return None
    finally:
        shutil.rmtree(d, ignore_errors=True)


def cache_key(batch, **cfg):
    """the key the real Balancer computes for a batch under a configuration"""
    from synrbl import Balancer
    from synrbl.SynUtils.batching import CacheManager
    d = tempfile.mkdtemp(prefix="c12k_")
    try:
        kw = dict(n_jobs=1)
        kw.update(cfg)
        b = _BAL.get(json.dumps(cfg, sort_keys=True))
        if b is None:
            b = _BAL[json.dumps(cfg, sort_keys=True)] = Balancer(**kw)
        cm = CacheManager(cache_dir=d)
        return b._Balancer__try_cache(cm, batch)[2]
    finally:
        shutil.rmtree(d, ignore_errors=True)


_BAL = {}


def key_collisions(tier):
    """distinct (batch, configuration) pairs must get distinct keys (exhaustive over a small structured family)"""
    import itertools
    vals = ["a", "ab", "b", "", "a>>b", "b>>a"]
    cols = ["reaction", "r"]
    rows = [{c: v} for c in cols for v in vals] + [{"reaction": "a", "tag": "b"}, {"reaction": "ab", "tag": ""}, {"reaction": "a", "tag": 1},
                                                    {"reaction": "a", "tag": "1"}]
    batches = [[r] for r in rows]
    batches += [list(p) for p in itertools.product(rows[:8], repeat=2)]
    if tier != "quick":
        batches += [list(p) for p in itertools.product(rows[:5], repeat=3)]
    seen = {}
    out = []
    n = 0
    for cfg in ({}, {"confidence_threshold": 0.5}, {"reaction_col": "r"}):
        for b in batches:
            n += 1
            k = cache_key(b, **cfg)
            ident = json.dumps([b, cfg], sort_keys=True)
            if k in seen and seen[k] != ident:
                out.append(({"kind": "key", "a": json.loads(seen[k]), "b": json.loads(ident)},
                            "two different (batch, configuration) pairs share one cache key: %s and %s" % (seen[k], ident)))
            seen.setdefault(k, ident)
    return n, out


def replay(d):
    inp = d["input"]
    if inp["kind"] == "key":
        return cache_key(inp["a"][0], **inp["a"][1]) == cache_key(inp["b"][0], **inp["b"][1])
    if inp["kind"] == "history":
        return history_ok([tuple(s) for s in inp["steps"]]) is not None
    if inp["kind"] == "crash":
        return crash_ok(inp["reactions"], inp["t"], inp["mode"], inp["frac"]) is not None
    return True


def check(run_):
    run_.level = "other"
    run_.explanation = ("deductive for the cache manager over a ghost file system (write_cache: the entry under its final name is untouched until the atomic "
                        "rename and then holds exactly the serialised data, nothing else changes; load_cache: the parsed stored text or ValueError; is_cached); "
                        "the transparency claim itself (a cached run returns what the uncached run returns) needs determinism of the whole pipeline and is a bounded "
                        "stand-in: histories of runs over a shared cache directory and simulated crash points of the cache write on the real Balancer, each "
                        "compared with the uncached run; plus a syntactic obligation on what reaches the cache key")
    run_.deductive(["contracts.cache"])
    from checks.props import pipeline_common as PC
    run_.deductive(PC.MODULES, only=["Balancer.__try_cache", "Balancer.__rebalance_batch"])
    run_.trust("operating system / json: open('w') truncates, json.dump leaves DUMPS(v) in the file, os.replace is an atomic rename, LOADS(DUMPS(v)) == v; "
               "a crash is a stop between two of these calls or inside json.dump (only the temporary file holds a prefix); fsync / power loss not modelled")
    args = key_arguments()
    run_.data_obligation("frame:cache-key-covers-configuration",
                         {"batch", "confidence_threshold", "reaction_col", "id_col", "remove_aam"} <= args,
                         "the cache key is computed from the batch and from every configuration field that influences the result (found: %s)" % sorted(args))
    n, coll = key_collisions(run_.tier)
    run_.bounded("key-injectivity", "all batches of 1-2 rows (3 in the thorough tier) over 2 column names x 6 values + typed extras, under 3 configurations",
                 n, n, coll[:4], True)
    rnd = random.Random(run_.seed)
    A, B = REACTIONS[:4], REACTIONS[2:7]
    histories = [
        [(A, 0, None), (A, 0, None)],
        [(A, 0, None), (A, 0.9, None), (A, 0, None)],
        [(A, 0.9, None), (A, 0, None)],
        [(A, 0, 2), (B, 0, 2), (A, 0, 3)],
        [(A, 0, None), (B, 0.5, 2), (A + B, 0.5, 2), (B, 0, 2)],
    ]
    # thresholds that differ by one float step (and by less than the precision the confidences are reported with) around an observed
    # confidence: the second run must not be served the first run's entry
    import math
    probe = run(A + B, None, 0)[0]
    confs = sorted({r.get("confidence") for r in probe if r.get("solved_by") == "mcs-based" and isinstance(r.get("confidence"), float)})
    for c in confs[:2 if run_.tier == "quick" else 6]:
        up = math.nextafter(c, 2.0)
        histories.append([(A + B, c, None), (A + B, up, None), (A + B, c, None)])
        histories.append([(A + B, min(1.0, c + 0.0004), None), (A + B, max(0.0, c - 0.0004), None)])
    if run_.tier != "quick":
        for _ in range(6):
            histories.append([(rnd.sample(REACTIONS, rnd.randint(2, 6)), rnd.choice([0, 0.3, 0.9, 1.0]), rnd.choice([None, 1, 2, 3]))
                              for _ in range(rnd.randint(2, 4))])
    fails, cases = [], 0
    for h in histories:
        cases += len(h)
        bad = history_ok(h)
        if bad:
            fails.append(({"kind": "history", "steps": [list(s) for s in h]}, bad))
    run_.bounded("histories", "%d run sequences over a shared cache directory (same / overlapping batches, thresholds 0..1, batch sizes)" % len(histories),
                 cases, len(histories) * 2, fails[:4], False, [{"history": [[len(s[0]), s[1], s[2]] for s in histories[1]]}])
    fails, cases = [], 0
    fracs = [0.0, 0.37, 0.99] if run_.tier == "quick" else [0.0, 0.01, 0.2, 0.37, 0.5, 0.8, 0.99]
    for mode in ("final-truncated", "tmp-left-behind", "absent"):
        for f in (fracs if mode != "absent" else [0.0]):
            cases += 1
            bad = crash_ok(A[:3], 0, mode, f)
            if bad:
                fails.append(({"kind": "crash", "reactions": A[:3], "t": 0, "mode": mode, "frac": f}, bad))
    run_.bounded("crash-points", "cache entry absent / truncated at %d prefixes under the final name and under the temporary name" % len(fracs),
                 cases, cases, fails[:4], False)
    run_.assume("real process kills, buffering, directory fsync and concurrent writers are not modelled: a crash is simulated by the file state it leaves behind")
