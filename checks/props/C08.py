"""C08 - rule-based completions add up exactly to the imbalance they are asked to fill."""
import itertools
import json
import gzip
import os
import random

from checks.common import REPO, parallel_map
from specs import chem

MODULES = ["contracts.matcher", "contracts.comparator", "contracts.externals", "contracts.imputer"]
DBS = ["synrbl/SynRuleImputer/rules_manager.json.gz", "Data/Rules/automated_rules.json.gz"]
HALOGENS = ["F", "Cl", "Br", "I"]


def load_db(rel):
    raw = open(os.path.join(REPO, rel), "rb").read()
    try:
        return json.loads(gzip.decompress(raw))
    except Exception:
        return json.loads(raw)


def banned_list():
    """the ban list is read from the real call in rule_based.py"""
    import ast
    src = open(os.path.join(REPO, "synrbl/rule_based.py")).read()
    for n in ast.walk(ast.parse(src)):
        if isinstance(n, ast.keyword) and n.arg == "ban_atoms":
            return ast.literal_eval(n.value)
    return None


def is_dihalogen(smiles):
    c = chem.comp(smiles)
    if c is None:
        return False
    el = {k: v for k, v in c.items() if k != "Q" and v}
    return sum(el.values()) == 2 and all(k in HALOGENS for k in el)


def path_sum(db, sol):
    by = {}
    for r in db:
        by.setdefault(r["smiles"], r["Composition"])
    tot = {}
    for e in sol:
        for k, v in by[e["smiles"]].items():
            tot[k] = tot.get(k, 0) + v * e["Ratio"]
    return tot


def check_solutions(db, data, sols):
    """the C08 postcondition on the real matcher's output; returns None or a description"""
    smiles = {r["smiles"] for r in db}
    for sol in sols:
        for e in sol:
            if e["smiles"] not in smiles:
                return "solution uses %r which is not in the database" % e["smiles"]
            if not isinstance(e["Ratio"], int) or e["Ratio"] < 1:
                return "non-positive multiplicity %r" % (e["Ratio"],)
        tot = path_sum(db, sol)
        keys = set(tot) | set(data)
        for k in keys:
            if tot.get(k, 0) != data.get(k, 0):
                return "completion %s sums to %s on %s, imbalance is %s" % (sol, tot.get(k, 0), k, data.get(k, 0))
    return None


def run_matcher(db, data, select="all", ranking="ion_priority"):
    from synrbl.SynRuleImputer.synthetic_rule_matcher import SyntheticRuleMatcher
    import copy
    m = SyntheticRuleMatcher(copy.deepcopy(db), dict(data), select=select, ranking=ranking)
    return m.match()


_DBC = {}


def _one_case(job):
    rel, d, sel, rk = job
    db = _DBC.get(rel)
    if db is None:
        db = _DBC[rel] = load_db(rel)
    first = None
    try:
        sols = run_matcher(db, d, sel, rk)
        bad = check_solutions(db, d, sols)
        if sols:
            first = sols[0]
    except RecursionError:
        bad = None
    except Exception as e:  # the matcher must not crash on a composition vector
        bad = "matcher raised %r" % (e,)
    return job, bad, first


def replay(d):
    inp = d["input"]
    db = load_db(inp["db"]) if "db" in inp else None
    if inp.get("kind") == "matcher":
        sols = run_matcher(db, inp["data"], inp.get("select", "all"), inp.get("ranking", "ion_priority"))
        return check_solutions(db, inp["data"], sols) is not None
    if inp.get("kind") == "record":
        r = [x for x in db if x["smiles"] == inp["smiles"]]
        return any(not chem.comp_eq(x["Composition"], chem.comp(x["smiles"]) or {}) for x in r)
    return True


def check(run):
    run.deductive(MODULES)
    from checks import crosscheck
    crosscheck.bounded_part(run, ["contracts.matcher", "contracts.comparator"], ["SyntheticRuleMatcher.exit_strategy_solution"])
    run.trust("RDKit: MolFromSmiles / atom symbols / total H counts / formal charges define the 'true composition' (specs/chem.py)")
    run.assume("completeness of the search (that a completion is found whenever one exists) is not part of the property")

    # ---------------------------------------------------------------- finite data obligations (exhaustive)
    ban = banned_list()
    run.data_obligation("data:ban-list-present", ban is not None and len(ban) >= 8,
                        "rule_based.py passes a ban list to RuleConstraint", input={"ban": ban})
    from rdkit import Chem
    canon_ban = [Chem.CanonSmiles(b) for b in (ban or [])]
    for rel in DBS:
        db = load_db(rel)
        by_smiles = {}
        for i, r in enumerate(db):
            inp = {"kind": "record", "db": rel, "smiles": r.get("smiles"), "index": i}
            true = chem.comp(r["smiles"])
            c = r["Composition"]
            run.data_obligation("data:%s#%d:composition" % (os.path.basename(rel), i),
                                true is not None and chem.comp_eq(c, true),
                                "recorded composition of %r equals its true composition" % r["smiles"],
                                detail={"recorded": c, "true": true}, input=inp)
            run.data_obligation("data:%s#%d:wellformed" % (os.path.basename(rel), i),
                                "Q" in c and all(isinstance(v, int) and v > 0 for k, v in c.items() if k != "Q")
                                and any(k != "Q" for k in c),
                                "record %r: explicit Q, positive element counts, at least one element" % r["smiles"],
                                detail={"recorded": c}, input=inp)
            prev = by_smiles.setdefault(r["smiles"], c)
            run.data_obligation("data:%s#%d:functional" % (os.path.basename(rel), i), prev == c,
                                "equal SMILES have equal recorded composition (CompOf is a function)", input=inp)
            if is_dihalogen(r["smiles"]):
                run.data_obligation("data:%s#%d:banned" % (os.path.basename(rel), i),
                                    any(b in r["smiles"] for b in canon_ban),
                                    "dihalogen / interhalogen record %r is caught by the ban list" % r["smiles"],
                                    detail={"ban": canon_ban}, input=inp)

    # ---------------------------------------------------------------- bounded stand-in on the real matcher
    rnd = random.Random(run.seed)
    fails, cases, distinct, samples = [], 0, set(), []
    skipped_total = 0
    for rel in DBS:
        db = load_db(rel)
        elems = sorted({k for r in db for k in r["Composition"] if k != "Q"})
        small = ["C", "H", "O", "N", "Cl", "Br", "Na", "S"]
        small = [e for e in small if e in elems]
        vecs = []
        # exhaustive: all vectors with at most 2 elements, counts 1..3 (quick) / 1..4 (thorough), charge -1..1
        top = 3 if run.tier == "quick" else 4
        for n in (1, 2):
            for ks in itertools.combinations(small, n):
                for vs in itertools.product([v for v in range(-2, top + 1) if v != 0], repeat=n):
                    for q in (0, 1, -1):
                        d = dict(zip(ks, vs))
                        if q:
                            d["Q"] = q
                        vecs.append(d)
        # random sums of database records (guaranteed solvable) and random vectors
        for _ in range(60 if run.tier == "quick" else 600):
            tot = {}
            for r in rnd.sample(db, rnd.randint(1, 2 if run.tier == "quick" else 3)):
                m = rnd.randint(1, 2 if run.tier == "quick" else 3)
                for k, v in r["Composition"].items():
                    tot[k] = tot.get(k, 0) + v * m
            vecs.append({k: v for k, v in tot.items() if v != 0 or k == "Q"})
        if run.tier == "quick":
            rnd.shuffle(vecs)
            vecs = vecs[:700]
        jobs = [(rel, d, sel, rk) for d in vecs for sel, rk in (("all", "ion_priority"), ("best", False))]
        res, skipped = parallel_map(_one_case, jobs, 45 if run.tier == "quick" else 600)
        skipped_total += skipped
        for (rel_, d, sel, rk), bad, first in res:
            cases += 1
            distinct.add(json.dumps(d, sort_keys=True))
            if first is not None and len(samples) < 3:
                samples.append({"imbalance": d, "first_completion": first})
            if bad:
                fails.append(({"kind": "matcher", "db": rel_, "data": d, "select": sel, "ranking": rk}, bad))
    run.notes.append("matcher cases not finished within the time budget (not counted): %d" % skipped_total)
    run.bounded("matcher-on-shipped-databases",
                "imbalance vectors over <=2 of 8 elements with counts in -2..%d (mixed signs included) and charge in -1..1 (exhaustive), plus random sums of <=3 records"
                % (3 if run.tier == "quick" else 4), cases, len(distinct), fails[:5], False, samples)
