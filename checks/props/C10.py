"""C10 - MCS search reports genuine, correctly attributed, largest common substructures."""
import copy
import itertools
import random
from collections import Counter

from checks import pipeline as P
from checks.props import pipeline_common as PC
from specs import chem

ENTRIES = [[], ["C"], ["CC"], ["C", "C"], ["CC", "C"], ["C", "CC"], [""]]


def natoms(smarts):
    from rdkit import Chem
    if not smarts:
        return 0
    m = Chem.MolFromSmarts(smarts)
    return 0 if m is None else m.GetNumAtoms()


def total(entry):
    return sum(natoms(s) for s in entry)


def selection_ok(table):
    """table[c][i] = list of SMARTS of condition c for reaction i; run the real selection and judge it"""
    from synrbl.SynMCSImputer.SubStructure.extract_common_mcs import ExtractMCS
    conds = [[{"id": str(i), "mcs_results": list(e), "sorted_reactants": ["C"] * len(e), "issue": "", "cond": c}
              for i, e in enumerate(row)] for c, row in enumerate(table)]
    res = ExtractMCS.get_largest_condition(*copy.deepcopy(conds))
    n = min(len(r) for r in table)
    by_id = {}
    for r in res:
        if r["id"] in by_id:
            return "two retained results for reaction %s" % r["id"]
        by_id[r["id"]] = r
    for i in range(n):
        totals = [total(table[c][i]) for c in range(len(table))]
        best = max(totals)
        got = by_id.get(str(i))
        if best == 0:
            if got is not None:
                return "reaction %d has no match in any condition but a result was retained" % i
            continue
        if got is None:
            tied = [c for c in range(len(table)) if totals[c] == best]
            firsts = [natoms(table[c][i][0]) if table[c][i] else 0 for c in tied]
            if len(tied) > 1 and max(firsts) == 0:
                continue  # degenerate tie with empty first patterns: nothing to choose by
            return "reaction %d: best total %d but no result retained (table %r)" % (i, best, [t[i] for t in table])
        if got["mcs_results"] != table[got["cond"]][i]:
            return "reaction %d: retained record does not belong to the condition it claims" % i
        if total(got["mcs_results"]) != best:
            return "reaction %d: retained condition %d matches %d atoms, condition with %d atoms exists (table %r)" % (
                i, got["cond"], total(got["mcs_results"]), best, [t[i] for t in table])
        tied = [c for c in range(len(table)) if totals[c] == best]
        if len(tied) > 1:
            f = natoms(got["mcs_results"][0]) if got["mcs_results"] else 0
            fb = max(natoms(table[c][i][0]) if table[c][i] else 0 for c in tied)
            if f != fb:
                return "reaction %d: tie on %d atoms not broken by first pattern size (%d vs %d)" % (i, best, f, fb)
    return None


def full_rows(reactions):
    """rows of the real pipeline including the search data (private entry point, one batch)"""
    import contextlib, io
    b = P.balancer()
    buf = io.StringIO()
    with contextlib.redirect_stdout(buf), contextlib.redirect_stderr(buf):
        return b._Balancer__run_pipeline([{"reaction": r} for r in reactions], {})


def row_ok(row):
    from rdkit import Chem
    m = row.get("mcs")
    if not isinstance(m, dict):
        return None
    if str(m.get("id")) != str(row.get("id")):
        return "search result of reaction %r attached to reaction %r" % (m.get("id"), row.get("id"))
    sr = m.get("sorted_reactants") or []
    pats = m.get("mcs_results") or []
    if not sr:
        return None
    sd = chem.sides(row["input_reaction"])
    if sd is None:
        return None
    a, b = chem.n_carbon(sd[0]), chem.n_carbon(sd[1])
    if a is None or b is None:
        return None
    richer = sd[0] if a >= b else sd[1]
    want = chem.canon_multiset(richer)
    got = Counter(chem.canon(x) or x for x in sr)
    if got != want:
        return "molecule list %r is not the multiset of the carbon-richer side %r of %r" % (sorted(got.elements()), sorted(want.elements()), row["input_reaction"])
    for s, p in zip(sr, pats):
        if p == "":
            continue
        mol, q = Chem.MolFromSmiles(s), Chem.MolFromSmarts(p)
        if mol is None or q is None or not mol.HasSubstructMatch(q):
            return "reported common substructure %r is not contained in %r" % (p, s)
    return None


class _Cancelled:
    canceled = True
    numAtoms = 0
    numBonds = 0
    smartsString = ""


def rows_with_cancelled_search(reactions, k):
    """run the pipeline while the k-th substructure search of the MCS stage reports 'cancelled' (its time limit hit)"""
    import synrbl.SynMCSImputer.SubStructure.mcs_graph_detector as gd
    orig = gd.rdFMCS.FindMCS
    state = {"n": 0}

    class Proxy:
        def __getattr__(self, name):
            return getattr(orig_mod, name)

    orig_mod = gd.rdFMCS

    def find(*a, **kw):
        state["n"] += 1
        if state["n"] == k:
            return _Cancelled()
        return orig(*a, **kw)

    class Mod:
        def __getattr__(self, name):
            if name == "FindMCS":
                return find
            return getattr(orig_mod, name)

    gd.rdFMCS = Mod()
    try:
        return full_rows(reactions), state["n"]
    finally:
        gd.rdFMCS = orig_mod


def rows_with_failing_removal(reactions, k):
    """run the pipeline while the k-th 'identify_optimal_substructure' of the MCS stage (the removal of a found pattern from the
    product) raises: the pattern of that reactant is already recorded at that point"""
    from synrbl.SynMCSImputer.SubStructure.substructure_analyzer import SubstructureAnalyzer
    orig = SubstructureAnalyzer.identify_optimal_substructure
    state = {"n": 0}

    def flaky(self, *a, **kw):
        state["n"] += 1
        if state["n"] == k:
            raise RuntimeError("injected: substructure removal failed")
        return orig(self, *a, **kw)

    SubstructureAnalyzer.identify_optimal_substructure = flaky
    try:
        return full_rows(reactions), state["n"]
    finally:
        SubstructureAnalyzer.identify_optimal_substructure = orig


def replay(d):
    inp = d["input"]
    if inp["kind"] == "removal-fails":
        rows, _ = rows_with_failing_removal(inp["reactions"], inp["k"])
        return any(row_ok(r) for r in rows)
    if inp["kind"] == "cancelled":
        rows, _ = rows_with_cancelled_search(inp["reactions"], inp["k"])
        return any(row_ok(r) for r in rows)
    if inp["kind"] == "table":
        return selection_ok(inp["table"]) is not None
    if inp["kind"] == "search":
        rows = full_rows([inp["reaction"]])
        return any(row_ok(r) for r in rows)
    return True


def check(run):
    run.level = "other"
    PC.deductive(run)
    # the selection step under its own contract (record view of the condition rows): maximality for every number of
    # conditions and every length; the row-view contract used at the call site in MCSSearch.find (results are records
    # taken from the arguments) is the first conjunct of what is proved here
    run.deductive(["contracts.mcs_select"])
    run.deductive(["contracts.mcs_process"])
    # where the pattern list is built: one entry per sorted reactant unless a None entry marks a failed search (which single_mcs rejects)
    run.deductive(["contracts.mcs_detect"])
    run.assume("ExtractMCS.get_largest_condition is verified in the record view of contracts/mcs_select.py; MCSSearch.find uses the weaker row-view "
               "contract 'every result is one of the argument records', which is the first conjunct of the proved postcondition")
    rnd = random.Random(run.seed)
    # selection step: exhaustive over small tables of the three search conditions
    fails, cases = [], 0
    tables = [[[a], [b], [c]] for a, b, c in itertools.product(ENTRIES, repeat=3)]
    two = [[[a, d], [b, e], [c, f]] for a, b, c, d, e, f in itertools.product(ENTRIES[:5], repeat=6)]
    if run.tier == "quick":
        two = rnd.sample(two, 400)
    tables += two
    tables += [[[["CC"], ["C"]], [["C"]], [["C"], ["CC"]]]]  # conditions of unequal length
    for t in tables:
        cases += 1
        bad = selection_ok(t)
        if bad:
            fails.append(({"kind": "table", "table": t}, bad))
    run.bounded("selection-tables", "all 1-reaction tables of 3 conditions over %d entry shapes (exhaustive); 2-reaction tables over 5 shapes (%s)"
                % (len(ENTRIES), "400 sampled" if run.tier == "quick" else "exhaustive, 15625"), cases, cases, fails[:5],
                run.tier != "quick", [{"table": tables[10]}])
    # search results on real reactions
    reactions = [r for r in P.CRAFTED if ">>" in r][:45] + P.validation_reactions(40 if run.tier == "quick" else 600, seed=run.seed)
    fails, cases, n_mcs = [], 0, 0
    for i in range(0, len(reactions), 25):
        part = reactions[i:i + 25]
        try:
            rows = full_rows(part)
        except Exception as e:
            fails.append(({"kind": "search", "reaction": part[0]}, "pipeline raised %r" % (e,)))
            continue
        for row in rows:
            cases += 1
            if isinstance(row.get("mcs"), dict):
                n_mcs += 1
            bad = row_ok(row)
            if bad:
                fails.append(({"kind": "search", "reaction": row["input_reaction"]}, bad))
    run.bounded("search-results", "%d reactions through the real pipeline, %d of them reached the MCS stage" % (len(reactions), n_mcs),
                cases, n_mcs, fails[:6], False)
    # a search that hits its time limit must not silently drop a molecule from a retained result
    multi = ["CC(=O)Cl.NCc1ccccc1.CCN(CC)CC>>CC(=O)NCc1ccccc1", "CC(=O)OCC.O>>CC(=O)O", "c1ccccc1Br.OB(O)c1ccccc1.CCO>>c1ccccc1-c1ccccc1",
             "CCOC(=O)CC(=O)OCC.CCO.O>>CCOC(=O)CC(=O)O"]
    fails, cases = [], 0
    _, n_calls = rows_with_cancelled_search(multi, 10 ** 9)
    ks = list(range(1, n_calls + 1))
    if run.tier == "quick":
        ks = ks[:10] + rnd.sample(ks[10:], min(8, max(0, len(ks) - 10)))
    for k in ks:
        cases += 1
        rows, _ = rows_with_cancelled_search(multi, k)
        for row in rows:
            bad = row_ok(row)
            if bad:
                fails.append(({"kind": "cancelled", "reactions": multi, "k": k}, "search #%d cancelled: %s" % (k, bad)))
    run.bounded("cancelled-searches", "4 multi-molecule reactions, one of the %d substructure searches cancelled at a time (%d positions tried)" % (n_calls, len(ks)),
                cases, len(ks), fails[:5], run.tier != "quick")
    # the same with the substructure removal step failing once (the pattern of that reactant is recorded before it)
    fails, cases = [], 0
    _, n_calls2 = rows_with_failing_removal(multi, 0)
    ks2 = list(range(1, n_calls2 + 1))
    if run.tier == "quick":
        ks2 = ks2[:8] + rnd.sample(ks2[8:], min(6, max(0, len(ks2) - 8)))
    for k in ks2:
        cases += 1
        rows, _ = rows_with_failing_removal(multi, k)
        for row in rows:
            bad = row_ok(row)
            if bad:
                fails.append(({"kind": "removal-fails", "reactions": multi, "k": k}, "substructure removal #%d raised: %s" % (k, bad)))
    run.bounded("failing-removals", "the same reactions, one of the %d substructure removals raising at a time (%d positions tried)" % (n_calls2, len(ks2)),
                cases, len(ks2), fails[:5], run.tier != "quick")
    run.assume("RDKit FindMCS / FindMCES return a pattern that matches both arguments (checked here with HasSubstructMatch on every reported pattern)")
