"""C06 - a reaction's result does not depend on its batch context."""
import random

from checks import pipeline as P
from checks.props import pipeline_common as PC

KEYS = ("input_reaction", "reaction", "solved", "solved_by", "confidence", "rules", "issue")
STAT_KEYS = ("reaction_cnt", "balanced_cnt", "rb_applied", "rb_solved", "mcs_applied", "mcs_solved", "confident_cnt")


def proj(r):
    return {k: r.get(k) for k in KEYS}


def group_run(reactions, batch_size=None, n_jobs=1):
    st = {}
    rows = P.rebalance(reactions, stats=st, batch_size=batch_size, n_jobs=n_jobs)
    return rows, st


def replay(d):
    inp = d["input"]
    alone = {}
    for r in inp["reactions"]:
        rows, _ = group_run([r])
        alone[r] = proj(rows[0]) if rows else None
    rows, _ = group_run(inp["reactions"], inp.get("batch_size"), inp.get("n_jobs", 1))
    return any(proj(row) != alone[r] for r, row in zip(inp["reactions"], rows))


def check(run):
    run.level = "other"
    PC.deductive(run)
    # the per-reaction selection among the search conditions must not carry state from one reaction to the next
    run.deductive(["contracts.mcs_select"])
    from checks import crosscheck
    crosscheck.bounded_part(run, ["contracts.balancing"], ["merge_stats"])
    run.assume("worker scheduling: joblib process pools are modelled as order-preserving maps; real interleavings are only sampled (n_jobs 1, 2, 4)")
    rnd = random.Random(run.seed)
    n = 14 if run.tier == "quick" else 120
    pool = [r for r in P.CRAFTED if r not in ("[U]>>[Th]",)][:30] + P.validation_reactions(30 if run.tier == "quick" else 300, seed=run.seed)
    rs = rnd.sample(pool, min(n, len(pool)))
    # reactions whose sides share no substructure (every search condition comes back empty): their row must not depend on which
    # reaction was selected before them in the batch
    rs += [r for r in ("CCOC(C)=O>>[Na+].[Cl-]", "C1CC1>>N#N", "CC.O>>N") if r not in rs]
    # reference: every reaction alone
    alone = {}
    st_alone = {}
    for r in rs:
        rows, st = group_run([r])
        alone[r] = proj(rows[0]) if len(rows) == 1 else None
        for k, v in st.items():
            st_alone[k] = st_alone.get(k, 0) + v
    fails, cases, distinct = [], 0, set()
    layouts = [("all", rs, None, 1), ("reversed", rs[::-1], None, 1), ("batch3", rs, 3, 1), ("batch5-shuffled", rnd.sample(rs, len(rs)), 5, 1),
               ("batch1", rs, 1, 1), ("jobs2", rs, 4, 2)]
    if run.tier != "quick":
        layouts += [("jobs4", rs, 7, 4), ("batch2", rs, 2, 1), ("batch-n+1", rs, len(rs) + 1, 1)]
        for _ in range(4):
            layouts.append(("shuffle", rnd.sample(rs, len(rs)), rnd.randint(1, 9), 1))
    samples = []
    for name, order, bs, nj in layouts:
        rows, st = group_run(order, bs, nj)
        cases += len(order)
        distinct.add((name, bs, nj))
        if len(rows) != len(order):
            fails.append(({"kind": "group", "reactions": order, "batch_size": bs, "n_jobs": nj}, "layout %s returned %d rows for %d reactions" % (name, len(rows), len(order))))
            continue
        for r, row in zip(order, rows):
            if proj(row) != alone[r]:
                diff = {k: (alone[r].get(k) if alone[r] else None, row.get(k)) for k in KEYS if not alone[r] or alone[r].get(k) != row.get(k)}
                fails.append(({"kind": "group", "reactions": order, "batch_size": bs, "n_jobs": nj},
                              "layout %s: result of %r differs from its result alone: %s" % (name, r, diff)))
                break
        bad_stats = {k: (st.get(k), st_alone.get(k)) for k in STAT_KEYS if st.get(k, 0) != st_alone.get(k, 0)}
        if bad_stats:
            fails.append(({"kind": "group", "reactions": order, "batch_size": bs, "n_jobs": nj},
                          "layout %s: statistics are not the sum over the partition: %s" % (name, bad_stats)))
        if len(samples) < 2:
            samples.append({"layout": name, "batch_size": bs, "n_jobs": nj, "stats": st})
    run.bounded("alone-vs-grouped", "%d reactions alone vs %d layouts (order, batch size 1..n+1, n_jobs 1/2/4)" % (len(rs), len(layouts)),
                cases, len(distinct) * len(rs), fails[:6], False, samples)
