"""C17 - benchmark comparison ignores molecule order and SMILES spelling."""
import itertools
import random

from checks.props import c07_native
from specs import chem

METHODS = ("pathway", "ecfp", "ecfp_inv")


def norm(s):
    from synrbl.SynUtils.chem_utils import normalize_smiles
    return normalize_smiles(s)


def sim(a, b, m):
    from synrbl.SynUtils.chem_utils import wc_similarity
    return wc_similarity(a, b, method=m)


def respell(smiles, rnd):
    """an equivalent spelling: random atom order, kekulised or aromatic, optionally atom maps"""
    from rdkit import Chem
    m = chem.mol(smiles)
    if m is None:
        return smiles
    if smiles in ("[H][H]", "[HH]"):
        return rnd.choice(["[H][H]", "[HH]"])
    if rnd.random() < 0.4:
        for i, a in enumerate(m.GetAtoms()):
            a.SetAtomMapNum(i + 1)
    if rnd.random() < 0.15:
        m = Chem.AddHs(m)  # hydrogens written out as atoms: '[H]Cl' is 'Cl'
    try:
        return Chem.MolToSmiles(m, canonical=False, doRandom=True, kekuleSmiles=rnd.random() < 0.3)
    except Exception:
        return smiles


def variant(rsmi, rnd):
    sides = []
    for side in rsmi.split(">>"):
        mols = side.split(".")
        rnd.shuffle(mols)
        sides.append(".".join(respell(x, rnd) for x in mols))
    return ">>".join(sides)


def h2(s):
    return s.replace("[H][H]", "[HH]")


def judge_variants(r, rnd, n):
    bad = judge_variants_(r, rnd, n)
    if bad and bad.startswith("variant "):
        # known finding (by mechanism): nothing but the two spellings of molecular hydrogen distinguishes the normal forms
        v = bad.split("'")[1]
        if norm(v) != norm(r) and h2(norm(v)) == h2(norm(r)):
            return "H2:" + bad
    return bad


def judge_variants_(r, rnd, n):
    n0 = norm(r)
    if norm(n0) != n0:
        return "normalisation is not idempotent: %r -> %r -> %r" % (r, n0, norm(n0))
    for _ in range(n):
        v = variant(r, rnd)
        nv = norm(v)
        if nv != n0:
            return "variant '%s' of %r normalises to %r instead of %r" % (v, r, nv, n0)
        for m in METHODS:
            s = sim(r, v, m)
            if s != 1:
                return "similarity(%s) of %r and its variant %r is %r" % (m, r, v, s)
    return None


def judge_pair(a, b):
    for m in METHODS:
        try:
            s1, s2 = sim(a, b, m), sim(b, a, m)
        except Exception as e:
            return "similarity(%s) raised %r for %r / %r" % (m, e, a, b)
        if not (0 <= s1 <= 1) or not (0 <= s2 <= 1):
            return "similarity(%s) outside [0,1]: %r, %r" % (m, s1, s2)
        if abs(s1 - s2) > 1e-12:
            return "similarity(%s) is not symmetric: %r vs %r for %r / %r" % (m, s1, s2, a, b)
    return None


def stereo_free(r):
    return "@" not in r and "/" not in r and "\\" not in r


def replay(d):
    inp = d["input"]
    rnd = random.Random(inp.get("seed", 0))
    if inp["kind"] == "variants":
        return judge_variants(inp["reaction"], rnd, inp.get("n", 20)) is not None
    return judge_pair(inp["a"], inp["b"]) is not None


def check(run):
    run.level = "other"
    run.explanation = ("deductive for SynRBL's own part of the normal form (normalize_smiles: molecules are sorted after each is normalised, the sort key is "
                       "injective on the tokens, a molecule is CANON(RMAP(RSTEREO(s))), the sides of a reaction stay in place); order independence then follows "
                       "from the assumed contract of list.sort (injective key under a total order => the result is determined by the multiset).  Idempotence and "
                       "spelling invariance of RDKit's canonicalisation, and the similarity functions, are bounded stand-ins: the real normalize_smiles / "
                       "wc_similarity are run on permutations and re-spellings of corpus and constructed reactions (incl. anagram isomers) and on pairs of reactions")
    run.deductive(["contracts.chemutils"])
    run.trust("list.sort / sorted: with a key that is injective on the elements and totally ordered key values the sorted list is determined by the multiset "
              "of elements (CPython; exercised by the permutation stand-in below)")
    run.trust("RDKit: canon_smiles is a function of the molecule graph for valid stereo-free SMILES (spelling invariance and idempotence: bounded stand-in below)")
    rnd = random.Random(run.seed)
    from checks import pipeline as P
    base = [r for r in P.validation_reactions(120 if run.tier == "quick" else 1500, seed=run.seed) if stereo_free(r)]
    # isomer families whose canonical SMILES are anagrams / have equal atom counts
    isomers = ["CCCO", "CCOC", "CC(C)O", "CCCN", "CCNC", "CC(C)N", "CN(C)C", "OCCO", "COCO", "CC(=O)O", "COC=O", "OCC=O", "c1ccncc1C", "Cc1ccccn1", "Cc1ccncc1",
               "CCC=O", "CC(C)=O", "C=CCO", "NCCO", "CNCO", "CCON"]
    built = []
    for a, b in itertools.combinations(isomers, 2):
        built.append("%s.%s>>CC" % (a, b))
        built.append("CC>>%s.%s.%s" % (a, b, a))
    if run.tier == "quick":
        built = rnd.sample(built, 80)
    # the validation set spells hydrogen halides and protonated amines with explicit hydrogen atoms
    built += ["CC(=O)Cl.O>>CC(=O)O.[H]Cl", "ClC(C1=CC=CC=C1)=O.C1=CC=CC=C1>>O=C(C1=CC=CC=C1)C2=CC=CC=C2.[H]Cl", "[H]O[H].CC#N>>CC(N)=O",
              "CCN(CC)CC.BrC1CCOC1=O>>O=C2OCC=C2.CC[N+](CC)([H])CC.[Br-]", "S[H].CC1=CC=C(N(=O)=O)C=C1>>NC2=CC=C(C=C2)C=O.O.[S]", "C=C.[H][H]>>CC"]
    fails, cases, h2_fails = [], 0, []
    for r in base + built:
        cases += 1
        try:
            bad = judge_variants(r, rnd, 3 if run.tier == "quick" else 10)
        except Exception as e:
            bad = "raised %r for %r" % (e, r)
        if bad and bad.startswith("H2:"):
            h2_fails.append((None, bad[3:]))
        elif bad and len(fails) < 8:
            fails.append(({"kind": "variants", "reaction": r, "seed": run.seed}, bad))
    if norm("C=C.[HH]>>CC") != norm("C=C.[H][H]>>CC"):
        h2_fails.append((None, "normalize_smiles('C=C.[HH]>>CC') != normalize_smiles('C=C.[H][H]>>CC')"))
    run.bounded("dihydrogen-spelling", "the variants whose normal forms differ only in '[HH]' vs '[H][H]'", len(h2_fails) + 1, 1, h2_fails[:1], False)
    run.bounded("order-and-spelling", "%d stereo-free corpus reactions and %d reactions built from %d isomers (anagram pairs included), each with random "
                "permutations / re-spellings (random atom order, kekulised, atom maps)" % (len(base), len(built), len(isomers)),
                cases, len(set(base + built)), fails, False, [{"reaction": built[0], "normal_form": norm(built[0])}])
    fails, cases = [], 0
    pool = base[:60] + built[:40]
    for _ in range(150 if run.tier == "quick" else 3000):
        a, b = rnd.choice(pool), rnd.choice(pool)
        cases += 1
        bad = judge_pair(a, b)
        if bad and len(fails) < 8:
            fails.append(({"kind": "pair", "a": a, "b": b}, bad))
    run.bounded("symmetry-and-range", "random pairs of those reactions, three similarity methods, both argument orders", cases, cases, fails, False)
