"""C02 - rebalancing only adds whole molecules; the given molecules are never altered."""
from checks import pipeline as P
from checks.props import pipeline_common as PC
from specs import chem


def _closed_shell(rsmi):
    from rdkit import Chem
    for part in rsmi.replace(">>", ".").split("."):
        m = chem.mol(part)
        if m is None:
            return False
        if any(a.GetNumRadicalElectrons() for a in m.GetAtoms()):
            return False
    return True


def _row(inp, row):
    if not _closed_shell(inp):
        return None  # free atomic H / O placeholders and other radicals are outside the property's quantifier
    bad = P.row_c02(row)
    if bad:
        return bad
    # input_reaction is the input with atom maps removed: the same molecules
    si, so = chem.sides(inp), chem.sides(row["input_reaction"])
    if si is not None and so is not None:
        for a, b in zip(si, so):
            ca = chem.canon_multiset(".".join(filter(None, [chem.clear_maps(x) or x for x in a.split(".")])) if a else "")
            cb = chem.canon_multiset(b)
            if ca != cb:
                return "input_reaction %r is not the input %r with maps removed" % (row["input_reaction"], inp)
    return None


def replay(d):
    return PC.replay_pipeline(d, _row)


def check(run):
    run.level = "other"
    run.explanation = ("bounded: the property is decided by multiset containment on rows of real pipeline runs; the append-only "
                       "stages (impute_reaction, MCSBasedMethod.run, Validator.check) are additionally verified deductively")
    PC.deductive(run)
    # the rule-based solver's own text surgery: single_impute adds '.<completion>' to one side of a copy of the row and rebuilds the
    # reaction from the two sides; the marker surgery of RuleConstraint that follows it is outside the subset (known finding)
    run.deductive(["contracts.matcher", "contracts.comparator", "contracts.externals", "contracts.imputer"], only=["SyntheticRuleImputer.single_impute"])
    PC.bounded_rows(run, "given-molecules-kept", _row)
    run.assume("the marker surgery of RuleConstraint / curate_* (substring replace on whole side strings) is outside the verified "
               "subset; its call-site precondition (no marker inside the given part) is exercised only by the bounded runs")
