"""Bounded stand-in shared by the pipeline-level properties: the real Balancer is run on crafted and corpus
reactions with run-time monitors of every stage contract installed; the property's own row oracle is evaluated on
every returned row."""
import json

from checks import pipeline as P, runtime as RT

MODULES = ["contracts.rows", "contracts.externals", "contracts.balancing", "contracts.matcher", "contracts.comparator", "contracts.decomposer"]

_cache = {}


def process_reaction_reads():
    """read-set of CheckCarbonBalance.process_reaction, from the real source: the row is used only as `reaction.copy()`, the copy only
    through copy[rsmi_col] (read), copy['carbon_balance_check'] = ... (write) and `return copy`.  This is what justifies the axiom
    'carbon-label-functional' (the label is a function of the reaction string alone).  Returns (ok, list of offending uses)."""
    import ast
    import os
    from checks.common import REPO
    src = open(os.path.join(REPO, "synrbl/SynProcessor/check_carbon_balance.py")).read()
    fn = None
    for n in ast.walk(ast.parse(src)):
        if isinstance(n, ast.FunctionDef) and n.name == "process_reaction":
            fn = n
    if fn is None:
        return False, ["process_reaction not found"]
    parents = {}
    for n in ast.walk(fn):
        for ch in ast.iter_child_nodes(n):
            parents[id(ch)] = n
    bad = []
    copies = set()
    for n in ast.walk(fn):
        if isinstance(n, ast.Assign) and isinstance(n.value, ast.Call) and isinstance(n.value.func, ast.Attribute) and \
                n.value.func.attr == "copy" and isinstance(n.value.func.value, ast.Name) and n.value.func.value.id == "reaction" and \
                len(n.targets) == 1 and isinstance(n.targets[0], ast.Name):
            copies.add(n.targets[0].id)
    for n in ast.walk(fn):
        if not isinstance(n, ast.Name) or n.id not in copies | {"reaction"}:
            continue
        par = parents.get(id(n))
        if n.id == "reaction":
            ok = isinstance(par, ast.Attribute) and par.attr == "copy" and isinstance(parents.get(id(par)), ast.Call)
        elif isinstance(n.ctx, ast.Store):
            ok = isinstance(par, ast.Assign)
        elif isinstance(par, ast.Return):
            ok = True
        elif isinstance(par, ast.Subscript) and par.value is n:
            if isinstance(par.ctx, ast.Store):
                ok = isinstance(par.slice, ast.Constant) and par.slice.value == "carbon_balance_check"
            else:
                ok = isinstance(par.slice, ast.Name) and par.slice.id == "rsmi_col"
        else:
            ok = False
        if not ok:
            bad.append("line %d: %s" % (n.lineno, ast.unparse(par) if par is not None else n.id))
    return (not bad and bool(copies)), bad


def deductive(run):
    """the deductive part shared by the pipeline-level properties, plus the syntactic obligation behind the scoped axiom"""
    res = run.deductive(MODULES)
    if any(f["function"] == "CheckCarbonBalance.check_carbon_balance" for f in run.functions):
        ok, bad = process_reaction_reads()
        run.data_obligation("frame:process_reaction-reads", ok,
                            "process_reaction reads its row only through row[rsmi_col] (so its label is a function of the reaction string: "
                            "axiom carbon-label-functional)%s" % ("" if ok else "; offending uses: %s" % bad))
    return res


def inputs(run, n_valid_quick=60, n_valid_thorough=1500):
    n = n_valid_quick if run.tier == "quick" else n_valid_thorough
    return list(P.CRAFTED) + P.validation_reactions(n, seed=run.seed)


def run_pipeline(run, reactions, monitors=True, chunk=40, **cfg):
    """returns (list of (input, row), monitor violations, stats)"""
    from pyvc.run import load_registry
    key = (json.dumps(reactions), json.dumps(cfg, sort_keys=True), monitors)
    if key in _cache:
        return _cache[key]
    if monitors:
        reg = load_registry(MODULES)
        RT.install(reg)
        RT.reset()
    pairs = []
    stats = {}
    try:
        for i in range(0, len(reactions), chunk):
            part = reactions[i:i + chunk]
            st = {}
            rows = P.rebalance(part, stats=st, **cfg)
            for k, v in st.items():
                stats[k] = stats.get(k, 0) + v
            if len(rows) == len(part):
                pairs += list(zip(part, rows))
            else:
                # rows were dropped (C05): align by input_reaction where possible
                it = iter(rows)
                cur = next(it, None)
                for inp in part:
                    if cur is not None and cur.get("input_reaction") is not None and _same(inp, cur["input_reaction"]):
                        pairs.append((inp, cur))
                        cur = next(it, None)
    finally:
        viol = list(RT.VIOLATIONS)
        calls = dict(RT.CALLS)
        if monitors:
            RT.uninstall()
    res = (pairs, viol, stats, calls)
    _cache[key] = res
    return res


def _same(inp, cleaned):
    from synrbl.SynUtils.chem_utils import remove_atom_mapping
    try:
        return remove_atom_mapping(inp) == cleaned
    except Exception:
        return False


HOSTILE = [
    # unparsable rows (dropped by preprocess - C05's known finding) in front of / between rows of every kind:
    # the surviving rows must still satisfy every row-level property
    ["C(C>>CC", "CC(=O)OCC>>CC(=O)O", "CCO.CC(=O)O>>CC(=O)OCC.O", "CCO>>CC=O", "C=C.BrBr>>BrCCBr"],
    ["CCO>>CCO", "c1ccc>>CC", "CC>>C(C", "CC(=O)Cl.N>>CC(=O)N", "CC(=O)O.OCC>>CC(=O)OCC.O", "CCCC>>CCCCC", "CC(=O)OC=C>>CC(=O)O"],
    ["CC(=O)OC=C>>CC(=O)O", "C(C>>CC", "CCBr.[OH-]>>CCO", "CCO>>CCO", "CCO>>CC(=O)O"],
]


def bounded_rows(run, name, row_check, props_for_monitors=None, **cfg):
    """evaluate row_check(input, row) -> None | message on every row; monitor violations are reported too"""
    reactions = inputs(run)
    pairs, viol, stats, calls = run_pipeline(run, reactions, **cfg)
    pairs = list(pairs)
    viol = list(viol)
    calls = dict(calls)
    for hb in HOSTILE:
        p2, v2, _, c2 = run_pipeline(run, hb, chunk=len(hb), **cfg)
        pairs += p2
        viol += v2
        for k, v in c2.items():
            calls[k] = calls.get(k, 0) + v
    fails = []
    distinct = set()
    samples = []
    for inp, row in pairs:
        distinct.add(inp)
        bad = row_check(inp, row)
        if bad:
            fails.append(({"kind": "pipeline", "reaction": inp, "cfg": cfg}, bad))
        elif len(samples) < 3:
            samples.append({"input": inp, "reaction": row.get("reaction"), "solved": row.get("solved"),
                            "solved_by": row.get("solved_by")})
    run.bounded(name, "%d crafted + %d validation-set reactions through the real Balancer (n_jobs=1, batches of 40) and %d batches that mix in unparsable rows"
                % (len(P.CRAFTED), len(reactions) - len(P.CRAFTED), len(HOSTILE)), len(pairs), len(distinct), fails[:8], False, samples)
    mon_fail = []
    for q, clause in viol:
        mon_fail.append(({"kind": "monitor", "function": q}, "run-time contract of %s violated: %s" % (q, clause[:300])))
    run.bounded(name + ":stage-contract-monitors", "every call of %d monitored functions during those runs" % len(calls),
                sum(calls.values()), len(calls), mon_fail[:8], False,
                [{"monitored_calls": calls}])
    return pairs, stats


def replay_pipeline(d, row_check):
    inp = d["input"]
    if inp.get("kind") != "pipeline":
        return True
    rows = P.rebalance([inp["reaction"]], **inp.get("cfg", {}))
    if len(rows) != 1:
        return True
    return row_check(inp["reaction"], rows[0]) is not None
