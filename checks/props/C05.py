"""C05 - one result row per input row, in input order, for every input form."""
import csv
import itertools
import json
import os
import random
import shutil
import tempfile

from checks import pipeline as P
from checks.props import pipeline_common as PC
from specs import chem

VALID = ["CCO>>CC=O", "CC(=O)OCC>>CC(=O)O", "CCO>>CCO", "C=C.[H][H]>>CC", "CC(=O)Cl.N>>CC(=O)N", "CCBr.[OH-]>>CCO"]
UNPARSABLE = ["C(C>>CC", "CC>>C(C", "c1ccc>>CC"]           # exactly one '>>', a side that RDKit rejects
NO_SEPARATOR = ["CCO", "", "A>B>C", "CC>>O>>C"]              # not exactly one '>>'
MISSING = [None, float("nan")]                              # missing values (as read from a CSV / JSON)


def kind(x):
    if not isinstance(x, str):
        return "malformed"
    if x.count(">>") != 1:
        return "malformed"
    a, b = x.split(">>")
    if chem.mol(a) is None or chem.mol(b) is None:
        return "unparsable"
    return "valid"


def clean(x):
    from synrbl.SynUtils.chem_utils import remove_atom_mapping
    return remove_atom_mapping(x)


def expected(inputs, batch_size):
    """(ideal, known-defective) expected lists of input_reaction values"""
    ideal = [i for i in inputs]
    n = len(inputs)
    bs = batch_size or max(n, 1)
    defective = []
    for s in range(0, n, bs):
        batch = inputs[s:s + bs]
        if any(kind(x) == "malformed" for x in batch):
            continue  # known finding: the whole batch is lost
        defective += [x for x in batch if kind(x) == "valid"]  # known finding: unparsable rows are dropped
    return ideal, defective


def describe(rows):
    return [r.get("input_reaction") for r in rows]


def judge(inputs, rows, batch_size):
    """None | (finding id suffix, message).  Rows must describe the inputs one to one and in order."""
    ideal, defective = expected(inputs, batch_size)
    got = describe(rows)
    want = [clean(x) if isinstance(x, str) and kind(x) != "malformed" else x for x in ideal]
    if len(got) == len(want) and all(g == w for g, w in zip(got, want)):
        return None
    want_def = [clean(x) for x in defective]
    if got == want_def:
        kinds = {kind(x) for x in inputs}
        if "malformed" in kinds:
            return ("batch-lost-on-malformed-row", "a row without exactly one '>>' (or a missing value) makes its whole batch disappear: "
                    "%d rows in, %d rows out" % (len(inputs), len(rows)))
        return ("unparsable-row-dropped", "rows whose SMILES do not parse are dropped: %d rows in, %d rows out" % (len(inputs), len(rows)))
    return ("row-correspondence", "rows do not correspond to the inputs: in=%r out=%r" % (inputs, got))


def run_source(src, batch_size, reaction_col="reaction"):
    return P.rebalance_source(src, batch_size=batch_size, reaction_col=reaction_col)


def replay(d):
    inp = d["input"]
    rows = P.rebalance(inp["reactions"], batch_size=inp.get("batch_size"))
    return judge(inp["reactions"], rows, inp.get("batch_size")) is not None


def check(run):
    run.level = "other"
    PC.deductive(run)
    rnd = random.Random(run.seed)
    fails = {}
    cases = 0
    distinct = set()
    samples = []

    def one(inputs, bs, form="list"):
        nonlocal cases
        cases += 1
        distinct.add((json.dumps(inputs, default=str), bs, form))
        if form == "list":
            rows = P.rebalance(inputs, batch_size=bs)
        elif form == "dicts":
            rows = P.rebalance([{"reaction": x, "tag": "t%d" % i} for i, x in enumerate(inputs)], batch_size=bs)
        else:
            rows = from_file(inputs, bs, form)
        j = judge([x if not (form in ("csv",) and x is None) else x for x in inputs], rows, bs)
        if len(samples) < 3 and j is None:
            samples.append({"inputs": inputs, "batch_size": bs, "form": form, "rows": len(rows)})
        if j is not None:
            fails.setdefault(j[0], []).append(({"kind": "rows", "reactions": inputs, "batch_size": bs, "form": form}, j[1]))

    # 1. valid inputs only: every batch size 1..n+1, all input forms
    base = VALID[:5]
    for bs in [None] + list(range(1, len(base) + 2)):
        one(base, bs)
    one(base, 2, "dicts")
    one(base, 3, "csv")
    one(base, 2, "json")
    # 1b. repeated reactions (also repeated only after atom-map removal) must stay separate rows
    rep = [VALID[0], VALID[1], VALID[0], "[CH3:1][CH2:2][OH:3]>>[CH3:1][CH:2]=[O:3]", VALID[2], VALID[1]]
    for bs in (None, 1, 2, 3, 4, len(rep), len(rep) + 1):
        one(rep, bs)
    one(rep, None, "dicts")
    one(rep, 4, "csv")
    one([VALID[3], VALID[3], VALID[3]], None)
    # 2. mixtures with malformed rows at every position (quick: one malformed row; thorough: two)
    # (a list entry that is neither a string nor a dictionary is rejected up front by __convert_to_dataset with a ValueError
    # naming the type: an input error, not a row; it is not part of the input forms C05 quantifies over)
    bad = UNPARSABLE[:2] + NO_SEPARATOR[:3] + (UNPARSABLE[2:3] if run.tier != "quick" else [])
    for b in bad:
        for pos in range(0, 4):
            xs = VALID[:3]
            xs = xs[:pos] + [b] + xs[pos:]
            for bs in (None, 1, 2, len(xs) + 1):
                one(xs, bs)
    if run.tier != "quick":
        for b1, b2 in itertools.product(UNPARSABLE + NO_SEPARATOR, repeat=2):
            xs = [VALID[0], b1, VALID[1], b2, VALID[2]]
            for bs in (None, 1, 2, 3):
                one(xs, bs)
    for name, fl in fails.items():
        run.bounded("rows:" + name, "see rows", 0, 0, fl[:1] if name != "row-correspondence" else fl[:5], False)
    run.bounded("rows", "valid lists at every batch size 1..n+1 in 4 input forms; one%s malformed row at every position x 4 batch sizes"
                % ("" if run.tier == "quick" else " or two"), cases, len(distinct), [], False, samples)


def from_file(inputs, bs, form):
    d = tempfile.mkdtemp(prefix="c05_")
    try:
        if form == "csv":
            path = os.path.join(d, "in.csv")
            with open(path, "w", newline="") as f:
                w = csv.writer(f)
                w.writerow(["reaction", "tag"])
                for i, x in enumerate(inputs):
                    w.writerow([x, "t%d" % i])
        else:
            path = os.path.join(d, "in.json")
            with open(path, "w") as f:
                json.dump([{"reaction": x, "tag": "t%d" % i} for i, x in enumerate(inputs)], f)
        from synrbl.SynUtils.batching import Dataset
        import contextlib, io
        b = P.balancer()
        buf = io.StringIO()
        with contextlib.redirect_stdout(buf), contextlib.redirect_stderr(buf):
            return b.rebalance(Dataset(path), output_dict=True, batch_size=bs)
    finally:
        shutil.rmtree(d, ignore_errors=True)
