"""C18 - run statistics agree with the returned rows."""
import random

from checks import pipeline as P
from checks.props import pipeline_common as PC


def judge(n_in, rows, st):
    cnt = lambda f: sum(1 for r in rows if f(r))  # noqa
    bad = []
    if st.get("reaction_cnt") != n_in:
        bad.append("reaction_cnt=%r for %d input rows" % (st.get("reaction_cnt"), n_in))
    ib = cnt(lambda r: r.get("solved_by") == "input-balanced")
    if st.get("balanced_cnt") != ib:
        bad.append("balanced_cnt=%r but %d rows are input-balanced" % (st.get("balanced_cnt"), ib))
    mc = cnt(lambda r: r.get("solved") and r.get("solved_by") == "mcs-based")
    if st.get("confident_cnt") != mc:
        bad.append("confident_cnt=%r but %d rows are solved by the MCS method" % (st.get("confident_cnt"), mc))
    for a, b in (("rb_solved", "rb_applied"), ("mcs_solved", "mcs_applied")):
        if st.get(a, 0) > st.get(b, 0):
            bad.append("%s=%r exceeds %s=%r" % (a, st.get(a), b, st.get(b)))
    rb = cnt(lambda r: r.get("solved_by") == "rule-based")
    if st.get("rb_solved", 0) < rb:
        bad.append("rb_solved=%r below the %d rows attributed to the rule-based method" % (st.get("rb_solved"), rb))
    ms = cnt(lambda r: r.get("solved_by") == "mcs-based")
    if st.get("mcs_solved", 0) < ms:
        bad.append("mcs_solved=%r below the %d rows attributed to the MCS method" % (st.get("mcs_solved"), ms))
    # rows not solved before the MCS stage = rows that are neither input-balanced nor rule-based in the end
    not_before = cnt(lambda r: r.get("solved_by") not in ("input-balanced", "rule-based"))
    if st.get("mcs_applied") != not_before:
        bad.append("mcs_applied=%r but %d rows were not solved before the MCS stage" % (st.get("mcs_applied"), not_before))
    return bad


def replay(d):
    inp = d["input"]
    st = {}
    rows = P.rebalance(inp["reactions"], stats=st, batch_size=inp.get("batch_size"), confidence_threshold=inp.get("t", 0))
    return bool(judge(len(inp["reactions"]), rows, st))


def check(run):
    run.level = "other"
    PC.deductive(run)
    rnd = random.Random(run.seed)
    pool = list(P.CRAFTED) + P.validation_reactions(50 if run.tier == "quick" else 800, seed=run.seed)
    fails, cases, distinct, samples = [], 0, set(), []
    configs = [(None, 0), (7, 0), (1, 0), (None, 0.9), (5, 0.5)] if run.tier == "quick" else \
        [(None, 0), (7, 0), (1, 0), (3, 0), (None, 0.9), (5, 0.5), (11, 0.99), (None, 1.0)]
    # thresholds equal to reported confidences (and their neighbours) and the extremes
    import math
    probe = P.rebalance(pool[:40])
    cs = sorted({r["confidence"] for r in probe if r.get("solved_by") == "mcs-based" and r.get("confidence") is not None})
    for c in cs[:4 if run.tier == "quick" else 30]:
        configs += [(None, c), (None, math.nextafter(c, -1.0))]
    configs += [(None, 1.0), (4, 1.0)]
    for bs, t in configs:
        xs = rnd.sample(pool, min(len(pool), 25 if run.tier == "quick" else 200)) if bs != 1 else rnd.sample(pool, 8)
        if t not in (0, 0.5, 0.9, 0.99):
            xs = pool[:40]
        st = {}
        rows = P.rebalance(xs, stats=st, batch_size=bs, confidence_threshold=t)
        cases += len(xs)
        distinct.add((bs, t))
        bad = judge(len(xs), rows, st) if len(rows) == len(xs) else ["%d rows for %d inputs" % (len(rows), len(xs))]
        if bad:
            fails.append(({"kind": "stats", "reactions": xs, "batch_size": bs, "t": t}, "; ".join(bad)))
        elif len(samples) < 2:
            samples.append({"batch_size": bs, "threshold": t, "stats": st})
    run.bounded("stats-vs-rows", "%d (batch size, threshold) configurations over crafted + corpus reactions" % len(configs),
                cases, len(distinct) * 10, fails[:5], False, samples)
    run.assume("inputs do not pre-populate the tool's own columns; only valid reactions are used here (row loss on malformed input is C05's known finding)")
