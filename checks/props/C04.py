"""C04 - an already balanced reaction passes through unchanged as input-balanced."""
import random

from checks import pipeline as P
from checks.props import pipeline_common as PC, c07_native
from specs import chem


def _row(inp, row):
    return P.row_c04(row, inp)


def replay(d):
    if d["input"].get("kind") in ("decompose", "table"):
        return c07_native.replay(d)
    return PC.replay_pipeline(d, _row)


def check(run):
    PC.deductive(run)
    c07_native.data_and_bounded(run)
    pairs, _ = PC.bounded_rows(run, "balanced-input-passes-through", _row)
    # derived balanced inputs: reversals, doubled reactions and unions of solved rows
    rnd = random.Random(run.seed)
    solved = [r["reaction"] for _, r in pairs if r.get("solved") and chem.balanced(r["reaction"])]
    derived = []
    for r in solved[:40 if run.tier == "quick" else 400]:
        a, b = r.split(">>")
        derived.append(b + ">>" + a)
        derived.append(a + "." + a + ">>" + b + "." + b)
    for _ in range(10 if run.tier == "quick" else 100):
        if len(solved) >= 2:
            x, y = rnd.sample(solved, 2)
            derived.append(x.split(">>")[0] + "." + y.split(">>")[0] + ">>" + x.split(">>")[1] + "." + y.split(">>")[1])
    derived += ["[U]>>[U]", "[Fr+].[Cl-]>>[Fr+].[Cl-]", "[Og]>>[Og]", "[NH4+].[OH-]>>N.O", "[Na+].[Cl-].O>>[Na+].[OH-].Cl"]
    res, viol, stats, calls = PC.run_pipeline(run, derived, monitors=False)
    fails = []
    for inp, row in res:
        bad = _row(inp, row)
        if bad:
            fails.append(({"kind": "pipeline", "reaction": inp, "cfg": {}}, bad))
    run.bounded("derived-balanced-inputs", "reversals, doubles and unions of %d solved results plus heavy-element / ionic cases" % len(solved),
                len(res), len(set(derived)), fails[:8], False, [{"input": derived[0]}] if derived else None)
