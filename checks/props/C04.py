"""C04 - an already balanced reaction passes through unchanged as input-balanced."""
import random

from checks import pipeline as P
from checks.props import pipeline_common as PC, c07_native
from specs import chem


def _row(inp, row):
    return P.row_c04(row, inp)


def resubmitted(reactions, edit=False):
    """rows of a second run whose input rows are the output rows of a first run (result files fed back in); with edit=True the
    reaction of every input-balanced row is first replaced by an unbalanced one (its last product dropped)"""
    rows1 = [dict(r) for r in P.rebalance(reactions)]
    if edit:
        for r in rows1:
            sd = chem.sides(r["reaction"])
            if r.get("solved_by") == "input-balanced" and sd and "." in r["reaction"].split(">>")[1]:
                r["reaction"] = r["reaction"].rsplit(".", 1)[0]
    return P.rebalance(rows1)


def replay(d):
    if d["input"].get("kind") in ("decompose", "table"):
        return c07_native.replay(d)
    if d["input"].get("kind") == "resubmitted":
        return any(P.row_c04(r, None) for r in resubmitted(d["input"]["reactions"], d["input"]["edit"]))
    return PC.replay_pipeline(d, _row)


def check(run):
    PC.deductive(run)
    c07_native.data_and_bounded(run)
    pairs, _ = PC.bounded_rows(run, "balanced-input-passes-through", _row)
    # derived balanced inputs: reversals, doubled reactions and unions of solved rows
    rnd = random.Random(run.seed)
    solved = [r["reaction"] for _, r in pairs if r.get("solved") and chem.balanced(r["reaction"])]
    derived = []
    for r in solved[:40 if run.tier == "quick" else 400]:
        a, b = r.split(">>")
        derived.append(b + ">>" + a)
        derived.append(a + "." + a + ">>" + b + "." + b)
    for _ in range(10 if run.tier == "quick" else 100):
        if len(solved) >= 2:
            x, y = rnd.sample(solved, 2)
            derived.append(x.split(">>")[0] + "." + y.split(">>")[0] + ">>" + x.split(">>")[1] + "." + y.split(">>")[1])
    derived += ["[U]>>[U]", "[Fr+].[Cl-]>>[Fr+].[Cl-]", "[Og]>>[Og]", "[NH4+].[OH-]>>N.O", "[Na+].[Cl-].O>>[Na+].[OH-].Cl"]
    res, viol, stats, calls = PC.run_pipeline(run, derived, monitors=False)
    fails = []
    for inp, row in res:
        bad = _row(inp, row)
        if bad:
            fails.append(({"kind": "pipeline", "reaction": inp, "cfg": {}}, bad))
    run.bounded("derived-balanced-inputs", "reversals, doubles and unions of %d solved results plus heavy-element / ionic cases" % len(solved),
                len(res), len(set(derived)), fails[:8], False, [{"input": derived[0]}] if derived else None)

    # rows that already carry the tool's own columns (a result fed back in, possibly edited): the label must follow the reaction, not the
    # stale bookkeeping columns
    sub = [r for r in P.CRAFTED if "[U]" not in r][:30 if run.tier == "quick" else 60]
    fails, cases = [], 0
    for edit in (False, True):
        try:
            rows = resubmitted(sub, edit)
        except Exception as e:
            fails.append(({"kind": "resubmitted", "reactions": sub, "edit": edit}, "re-submission raised %r" % (e,)))
            continue
        for row in rows:
            cases += 1
            bad = P.row_c04(row, None)
            if bad:
                fails.append(({"kind": "resubmitted", "reactions": sub, "edit": edit}, "re-submitted row%s: %s" % (" (edited)" if edit else "", bad)))
    run.bounded("resubmitted-result-rows", "%d crafted reactions: the output rows of a run fed back in as input rows, unchanged and with the balanced rows edited to be unbalanced"
                % len(sub), cases, 2, fails[:5], False)
