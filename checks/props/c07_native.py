"""Finite data obligations and bounded stand-ins for the composition accounting (C07; reused by C01/C04)."""
import ast
import itertools
import os
import random

from checks.common import REPO
from specs import chem


def table_from_source():
    """RSMIDecomposer.atomic_symbols read from the real class body"""
    src = open(os.path.join(REPO, "synrbl/SynProcessor/rsmi_decomposer.py")).read()
    for n in ast.walk(ast.parse(src)):
        if isinstance(n, ast.ClassDef) and n.name == "RSMIDecomposer":
            for m in n.body:
                if isinstance(m, ast.Assign) and getattr(m.targets[0], "id", None) == "atomic_symbols":
                    return ast.literal_eval(m.value)
    return None


def decompose(s):
    from synrbl.SynProcessor.rsmi_decomposer import RSMIDecomposer
    return RSMIDecomposer.decompose(s)


def decompose_agrees(s):
    """None if the real decompose agrees with the oracle on s, else a description"""
    true = chem.comp(s)
    got = decompose(s)
    if true is None:
        return None if got == {} else "unparsable %r decomposed to %r" % (s, got)
    if "*" in true:
        return None  # wildcard atoms (Z = 0) are outside the property's domain
    if not chem.comp_eq(got, true):
        return "decompose(%r) = %r, true composition %r" % (s, got, true)
    if any(v == 0 for v in got.values()):
        return "decompose(%r) stores a zero count: %r" % (s, got)
    return None


def replay(d):
    inp = d["input"]
    if inp.get("kind") == "decompose":
        return decompose_agrees(inp["smiles"]) is not None
    if inp.get("kind") == "table":
        t = table_from_source()
        from rdkit import Chem
        z = inp["z"]
        return t.get(z, "Unknown") != Chem.GetPeriodicTable().GetElementSymbol(z)
    return True


def corpus_molecules(limit=None, seed=0):
    import csv
    mols = set()
    path = os.path.join(REPO, "Data/Validation_set/validation_set.csv")
    if os.path.exists(path):
        with open(path) as f:
            for row in csv.DictReader(f):
                r = row.get("reaction") or row.get("reactions") or ""
                for side in r.split(">>"):
                    for m in side.split("."):
                        if m:
                            mols.add(m)
    mols = sorted(mols)
    if limit and len(mols) > limit:
        random.Random(seed).shuffle(mols)
        mols = mols[:limit]
    return mols


def data_and_bounded(run, decompose_only=False):
    from rdkit import Chem
    pt = Chem.GetPeriodicTable()
    table = table_from_source()
    run.data_obligation("data:element-table-present", table is not None,
                        "RSMIDecomposer.atomic_symbols is a literal table in the class body")
    # lemma TABLE(z) == PT(z) for every element 1..118 (the decomposer falls back to a default for absent keys)
    default = decompose_default()
    for z in range(1, 119):
        sym = pt.GetElementSymbol(z)
        got = (table or {}).get(z, default(z))
        run.data_obligation("data:element-table[%d]" % z, got == sym,
                            "atomic number %d is accounted under its element symbol %r (code uses %r)" % (z, sym, got),
                            input={"kind": "table", "z": z})
    # bounded: the real decompose against the oracle
    fails, cases, distinct = [], 0, set()
    smiles = []
    for z in range(1, 119):
        sym = pt.GetElementSymbol(z)
        smiles += ["[%s]" % sym, "[%s+]" % sym, "[%s-]" % sym, "[%sH2]" % sym if z > 1 else "[H][H]", "[13%s]" % sym]
    smiles += ["CCO", "c1ccccc1", "[NH4+].[Cl-]", "C[N+](C)(C)CC(=O)[O-]", "[2H]O[2H]", "O=C=O.O", "[H][H]", "[H+]",
               "[Na+].[OH-]", "C(C>>CC", "", "O.O.O", "[Fe+3].[Cl-].[Cl-].[Cl-]", "[U].[Th]", "[Og]", "C[C@H](N)C(=O)O",
               "[CH3:1][OH:2]", "F/C=C/F", "C1CC1.C1CC1"]
    smiles += corpus_molecules(limit=400 if run.tier == "quick" else None, seed=run.seed)
    samples = []
    for s in smiles:
        cases += 1
        distinct.add(s)
        bad = decompose_agrees(s)
        if bad:
            fails.append(({"kind": "decompose", "smiles": s}, bad))
        elif len(samples) < 3:
            samples.append({"smiles": s, "decompose": decompose(s)})
    # additivity over mixtures
    rnd = random.Random(run.seed)
    pool = [s for s in smiles if chem.comp(s) is not None and "*" not in (chem.comp(s) or {}) and s]
    for _ in range(200 if run.tier == "quick" else 3000):
        a, b = rnd.choice(pool), rnd.choice(pool)
        cases += 1
        m = a + "." + b
        bad = decompose_agrees(m)
        distinct.add(m)
        if bad:
            fails.append(({"kind": "decompose", "smiles": m}, bad))
    run.bounded("decompose-vs-oracle", "every element 1..118 in 5 bracket forms, %d corpus molecules, random binary mixtures"
                % len(smiles), cases, len(distinct), fails[:5], False, samples)


def decompose_default():
    """how the real code names an atomic number that is not in its table (read from the source)"""
    src = open(os.path.join(REPO, "synrbl/SynProcessor/rsmi_decomposer.py")).read()
    uses_symbol_fallback = "GetSymbol()" in src.split("def decompose")[1]

    def f(z):
        from rdkit import Chem
        if uses_symbol_fallback:
            return Chem.GetPeriodicTable().GetElementSymbol(z)
        return "Unknown"
    return f
