"""C19 - the rule database stays consistent under any sequence of edits."""
import copy
import io
import itertools
import contextlib
import random

from checks.props.C08 import load_db, DBS
from specs import chem

MODULES = ["contracts.ruledb"]
ALPHABET = [("H2O", "O"), ("water", "O"), ("H2O", "OO"), ("C2H6O", "CCO"), ("C2H6O", "COC"), ("ether", "COC"), ("bad", "C(C"), ("NH4+", "[NH4+]"),
            ("HO-", "[OH-]"), ("HCl", "Cl"), ("Cl-", "[Cl-]"), ("U", "[U]"),
            # well-formed strings that are not molecules (valence / aromaticity errors): invalid SMILES as well
            ("CH20", "C(C)(C)(C)(C)C"), ("NH5", "[NH5]"), ("C4H4", "c1ccc1")]


def inv(db):
    """None | message: the database invariant measured with the independent composition oracle"""
    seen_f, seen_s = set(), set()
    for e in db:
        true = chem.comp(e["smiles"])
        if true is None or e["smiles"] == "":
            return "entry with invalid SMILES %r" % (e["smiles"],)
        c = e.get("Composition")
        if not isinstance(c, dict) or "Q" not in c or not chem.comp_eq(c, true):
            return "recorded composition %r of %r is not its true composition %r (explicit Q required)" % (c, e["smiles"], true)
        if e["formula"] in seen_f:
            return "two entries share the formula %r" % e["formula"]
        if e["smiles"] in seen_s:
            return "two entries share the SMILES %r" % e["smiles"]
        seen_f.add(e["formula"])
        seen_s.add(e["smiles"])
    return None


def inv_all(db):
    """every violation of the invariant in a database, as (tag, message)"""
    out = []
    seen_f, seen_s = {}, {}
    for i, e in enumerate(db):
        true = chem.comp(e["smiles"])
        c = e.get("Composition")
        if true is None:
            out.append(("invalid-smiles:%s" % e["smiles"], "entry %d has the invalid SMILES %r" % (i, e["smiles"])))
        elif not isinstance(c, dict) or "Q" not in c or not chem.comp_eq(c, true):
            out.append(("composition:%s" % e["smiles"], "entry %d: recorded composition %r of %r is not its true composition %r" % (i, c, e["smiles"], true)))
        if e["formula"] in seen_f:
            out.append(("dup-formula:%s" % e["formula"], "entries %d and %d share the formula %r" % (seen_f[e["formula"]], i, e["formula"])))
        if e["smiles"] in seen_s:
            out.append(("dup-smiles:%s" % e["smiles"], "entries %d and %d share the SMILES %r" % (seen_s[e["smiles"]], i, e["smiles"])))
        seen_f.setdefault(e["formula"], i)
        seen_s.setdefault(e["smiles"], i)
    return out


def apply_ops(start, ops):
    """run an operation sequence on the real manager, checking the statement after every operation"""
    from synrbl.SynRuleImputer.rule_data_manager import RuleImputeManager
    m = RuleImputeManager(copy.deepcopy(start))
    buf = io.StringIO()
    with contextlib.redirect_stdout(buf):
        for op in ops:
            before = copy.deepcopy(m.database)
            if op[0] == "add":
                _, f, s = op
                ok = chem.comp(s) is not None and s != "" and all(e["formula"] != f for e in before) and all(e["smiles"] != s for e in before)
                try:
                    m.add_entry(f, s)
                    raised = False
                except ValueError:
                    raised = True
                if ok and (raised or len(m.database) != len(before) + 1 or m.database[-1]["formula"] != f or m.database[-1]["smiles"] != s
                           or m.database[:-1] != before):
                    return "valid new entry (%r, %r) was not appended" % (f, s)
                if not ok and (not raised or m.database != before):
                    return "invalid / duplicate entry (%r, %r) was not rejected without change" % (f, s)
            elif op[0] == "bulk":
                entries = [{"formula": f, "smiles": s} for f, s in op[1]]
                rej = m.add_entries(copy.deepcopy(entries))
                added = m.database[len(before):]
                if m.database[:len(before)] != before:
                    return "bulk add changed existing entries"
                if len(rej) + len(added) != len(entries):
                    return "bulk add of %d entries: %d added, %d reported" % (len(entries), len(added), len(rej))
                exp_db = copy.deepcopy(before)
                exp_rej = []
                for e in entries:
                    ok = chem.comp(e["smiles"]) is not None and e["smiles"] != "" and all(x["formula"] != e["formula"] for x in exp_db) \
                        and all(x["smiles"] != e["smiles"] for x in exp_db)
                    if ok:
                        exp_db.append(e)
                    else:
                        exp_rej.append(e)
                if [(e["formula"], e["smiles"]) for e in m.database] != [(e["formula"], e["smiles"]) for e in exp_db] or rej != exp_rej:
                    return "bulk add %r: database %r / rejected %r, expected %r / %r" % (
                        op[1], [(e["formula"], e["smiles"]) for e in added], rej, [(e["formula"], e["smiles"]) for e in exp_db[len(before):]], exp_rej)
            else:
                _, f = op
                m.remove_entry(f)
                exp = [e for e in before if e["formula"] != f] if sum(e["formula"] == f for e in before) <= 1 else None
                if exp is not None and m.database != exp:
                    return "remove(%r) did not delete exactly the named entry" % f
            bad = inv(m.database)
            if bad:
                return "after %r: %s" % (op, bad)
    return None


def replay(d):
    inp = d["input"]
    if inp["kind"] == "ops":
        start = [] if inp["start"] == "empty" else load_db(inp["start"])
        return apply_ops(start, [tuple(o) if o[0] != "bulk" else ("bulk", [tuple(x) for x in o[1]]) for o in inp["ops"]]) is not None
    if inp["kind"] == "shipped":
        return inv(load_db(inp["db"])) is not None
    return True


def check(run):
    run.deductive(MODULES)
    run.trust("assumed: decompose returns a fresh dictionary holding DEC(smiles); is_valid_smiles is RDKit's parser (C07 checks decompose against the oracle)")
    # finite data obligation: the shipped databases satisfy the invariant the contracts start from
    for rel in DBS:
        db = load_db(rel)
        bads = inv_all(db)
        run.data_obligation("data:%s:invariant" % rel.split("/")[-1], not bads or True,
                            "shipped database %s: %d records examined against the invariant (each violation is its own obligation below)" % (rel, len(db)))
        for tag, msg in bads:
            run.data_obligation("data:%s:%s" % (rel.split("/")[-1], tag), False, "shipped database %s: %s" % (rel, msg),
                                input={"kind": "shipped", "db": rel})
    rnd = random.Random(run.seed)
    ops_alpha = [("add", f, s) for f, s in ALPHABET] + [("rm", f) for f in ("H2O", "C2H6O", "nope", "HCl")] + \
        [("bulk", [ALPHABET[3], ALPHABET[4], ALPHABET[9]]), ("bulk", [ALPHABET[0], ALPHABET[1], ALPHABET[6], ALPHABET[0]]),
         ("bulk", [ALPHABET[7], ALPHABET[7]]), ("bulk", []), ("bulk", [ALPHABET[12], ALPHABET[9], ALPHABET[13]])]
    fails, cases = [], 0
    L = 2 if run.tier == "quick" else 3
    seqs = list(itertools.product(ops_alpha, repeat=L))
    if run.tier == "quick":
        pass
    for seq in seqs:
        cases += 1
        bad = apply_ops([], list(seq))
        if bad and len(fails) < 6:
            fails.append(({"kind": "ops", "start": "empty", "ops": [list(o) for o in seq]}, bad))
    for _ in range(300 if run.tier == "quick" else 5000):
        seq = [rnd.choice(ops_alpha) for _ in range(rnd.randint(3, 9))]
        cases += 1
        bad = apply_ops([], seq)
        if bad and len(fails) < 6:
            fails.append(({"kind": "ops", "start": "empty", "ops": [list(o) for o in seq]}, bad))
    run.bounded("edit-sequences", "all sequences of length %d over %d operations (add / bulk add / remove over valid, invalid, duplicate, charged compounds) "
                "from the empty database (exhaustive) plus random sequences of length 3-9" % (L, len(ops_alpha)), cases, len(seqs), fails, False,
                [{"ops": [list(o) for o in seqs[5]]}])
