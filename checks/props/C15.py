"""C15 - atom-map removal keeps every molecule chemically identical (bounded stand-in)."""
import itertools
import random
import re

from checks.props import c07_native
from specs import chem


def ram(s):
    from synrbl.SynUtils.chem_utils import remove_atom_mapping
    return remove_atom_mapping(s)


def closed_shell(m):
    return m is not None and not any(a.GetNumRadicalElectrons() for a in m.GetAtoms())


def judge(s):
    """None | message for one (valid, closed-shell) SMILES / reaction"""
    from rdkit import Chem
    out = ram(s)
    if re.search(r":\d+\]", out):
        return "atom map survives: %r -> %r" % (s, out)
    for a, b in zip(s.replace(">>", ".").split("."), out.replace(">>", ".").split(".")):
        want = chem.clear_maps(a)
        if want is None:
            continue
        m = chem.mol(a)
        if not closed_shell(m):
            continue
        got = chem.canon(b)
        if got is None:
            only_maps = re.sub(r":\d+(?=\])", "", a)
            if chem.canon(only_maps) == want and re.search(r"\[(B|C|N|O|P|S|F|Cl|Br|I)H\d?\]", only_maps):
                return "HYPERVALENT result does not parse: %r -> %r" % (a, b)
            return "result does not parse: %r -> %r" % (a, b)
        if got != want:
            # known mechanism: a bracket atom of the organic subset with an explicit H count in a higher valence state
            # ([PH3]=O, [PH4]F, [NH3]=O ...) loses its hydrogens when the second substitution unbrackets it
            only_maps = re.sub(r":\d+(?=\])", "", a)
            if chem.canon(only_maps) == want and re.search(r"\[(B|C|N|O|P|S|F|Cl|Br|I)H\d?\]", only_maps):
                return "HYPERVALENT molecule changed: %r -> %r (is %r, should be %r)" % (a, b, got, want)
            return "molecule changed: %r -> %r (is %r, should be %r)" % (a, b, got, want)
    if out.count(".") != s.count(".") or out.count(">>") != s.count(">>"):
        return "component structure changed: %r -> %r" % (s, out)
    return None


def bracket_atoms(tier):
    from rdkit import Chem
    pt = Chem.GetPeriodicTable()
    syms = [pt.GetElementSymbol(z) for z in range(1, 119)] + ["c", "n", "o", "s", "p", "se", "b", "te"]
    iso = ["", "2", "13", "125"] if tier != "quick" else ["", "13"]
    chir = ["", "@", "@@"] if tier != "quick" else ["", "@"]
    hs = ["", "H", "H2", "H3", "H4"]
    ch = ["", "+", "-", "+2", "-2", "++", "--", "+3"] if tier != "quick" else ["", "+", "-", "+2"]
    maps = ["", ":1", ":12", ":999"]
    ctx = ["{a}", "{a}F", "{a}(F)F", "{a}(F)(F)F", "{a}(F)(F)(F)F", "{a}=O", "{a}#N", "O={a}=O", "C{a}C", "c1cc{a}cc1", "C1CC{a}C1",
           "F{a}(F)(F)(F)(F)F", "{a}.{a}"]
    for s in syms:
        for i, c, h, q, m in itertools.product(iso, chir, hs, ch, maps):
            if c and s.islower():
                continue
            atom = "[%s%s%s%s%s%s]" % (i, s, c, h, q, m)
            for cx in ctx:
                yield cx.format(a=atom)


def mapped_variants(smiles, rnd, n):
    """re-emit a molecule with atom maps, explicit bonds, kekulised, random atom order"""
    from rdkit import Chem
    m = chem.mol(smiles)
    if m is None:
        return
    for k in range(n):
        mm = Chem.Mol(m)
        idx = list(range(1, mm.GetNumAtoms() + 1))
        rnd.shuffle(idx)
        for a, i in zip(mm.GetAtoms(), idx):
            if rnd.random() < 0.8:
                a.SetAtomMapNum(i if rnd.random() < 0.7 else i * 37)
        kw = dict(canonical=False, doRandom=True) if k % 2 else {}
        try:
            yield Chem.MolToSmiles(mm, allBondsExplicit=(k % 3 == 0), kekuleSmiles=(k % 4 == 1), allHsExplicit=(k % 5 == 2), **kw)
        except Exception:
            continue


def replay(d):
    return judge(d["input"]["smiles"]) is not None


def check(run):
    run.level = "other"
    run.explanation = ("bounded stand-in: two regular-expression substitutions over all SMILES are outside what the VC generator and the "
                       "string solvers decide (replace-all chains); the real remove_atom_mapping is compared with RDKit's map clearing on "
                       "enumerated bracket atoms in bond contexts, generated token strings and re-emitted corpus molecules")
    rnd = random.Random(run.seed)
    fails, cases, distinct = [], 0, set()
    samples = []
    n_valid = 0
    gen = bracket_atoms(run.tier)
    if run.tier == "quick":
        gen = itertools.islice((s for s in gen if rnd.random() < 0.08), 60000)
    for s in gen:
        m = chem.mol(s)
        if not closed_shell(m):
            continue
        n_valid += 1
        cases += 1
        bad = judge(s)
        if bad and len(fails) < 400:
            fails.append(({"kind": "smiles", "smiles": s}, bad))
        elif not bad and len(samples) < 3 and ":" in s:
            samples.append({"smiles": s, "result": ram(s)})
    hyper = [f for f in fails if f[1].startswith("HYPERVALENT")]
    fails = [f for f in fails if not f[1].startswith("HYPERVALENT")]
    run.bounded("unbracket-hypervalent-explicit-H", "subset of the bracket-atom enumeration", 0, 0, hyper[:1], False)
    run.bounded("bracket-atoms", "bracket atoms [iso sym chir H charge map] over 118 + 8 aromatic symbols in 13 bond contexts, kept when RDKit reads them as closed-shell%s"
                % (" (8% sample)" if run.tier == "quick" else " (exhaustive)"), cases, n_valid, fails[:6], run.tier != "quick", samples)
    # corpus molecules re-emitted with maps / explicit bonds / kekulised / random order, and whole mapped reactions
    fails, cases = [], 0
    mols = c07_native.corpus_molecules(limit=250 if run.tier == "quick" else None, seed=run.seed)
    extra = ["c1ccccc1", "c1ccc2ccccc2c1", "C1=CC=CC=C1", "c1cc[nH]c1", "C[C@H](N)C(=O)O", "F/C=C/F", "[NH4+].[Cl-]", "C[N+](C)(C)CC([O-])=O",
             "[2H]C([2H])([2H])O", "c1ccc(cc1)-c1ccccc1", "O=[N+]([O-])c1ccccc1", "CS(C)(=O)=O", "C1CC1", "c1ccsc1", "c1cnc[nH]1", "CC%10CCC%10"]
    for s in mols + extra:
        for v in mapped_variants(s, rnd, 4 if run.tier == "quick" else 12):
            cases += 1
            distinct.add(v)
            bad = judge(v)
            if bad and len(fails) < 12:
                fails.append(({"kind": "smiles", "smiles": v}, bad))
    pairs = mols[:200]
    for _ in range(100 if run.tier == "quick" else 2000):
        a, b = rnd.choice(pairs), rnd.choice(pairs)
        va = next(iter(mapped_variants(a, rnd, 1)), None)
        vb = next(iter(mapped_variants(b, rnd, 1)), None)
        if va and vb:
            r = va + "." + vb + ">>" + vb
            cases += 1
            bad = judge(r)
            if bad and len(fails) < 12:
                fails.append(({"kind": "smiles", "smiles": r}, bad))
    # long inputs: hundreds of mapped atoms in one reaction string
    for n in (60, 300, 700) if run.tier == "quick" else (60, 200, 257, 300, 700, 1500):
        chain = "".join("[CH2:%d]" % (i + 1) for i in range(n))
        big = "[CH3:%d]%s[OH:%d]" % (n + 1, chain, n + 2)
        many = ".".join("[CH3:%d][OH:%d]" % (2 * i + 1, 2 * i + 2) for i in range(n))
        for r in (big + ">>" + big, many + ">>" + many):
            cases += 1
            bad = judge(r)
            if bad and len(fails) < 12:
                fails.append(({"kind": "smiles", "smiles": r}, bad[:300]))
    run.bounded("corpus-variants", "%d corpus molecules + %d hand-picked ring / stereo / isotope / charged cases, each re-emitted by RDKit with random maps, explicit bonds, kekulised, "
                "explicit H and random atom order; mapped reactions built from them" % (len(mols), len(extra)), cases, len(distinct), fails[:6], False)
