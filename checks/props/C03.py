"""C03 - a declined reaction is returned untouched and with a reason."""
from checks import pipeline as P
from checks.props import pipeline_common as PC


def _row(inp, row):
    return P.row_c03(row)


def replay(d):
    return PC.replay_pipeline(d, _row)


def check(run):
    PC.deductive(run)
    PC.bounded_rows(run, "declined-rows-untouched", _row)
