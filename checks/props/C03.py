"""C03 - a declined reaction is returned untouched and with a reason."""
from checks import pipeline as P
from checks.props import pipeline_common as PC


def _row(inp, row):
    return P.row_c03(row)


def _cached_history(reactions, t_first):
    """rows of a default-threshold run whose result cache was filled by a run under another threshold"""
    import shutil
    import tempfile
    d = tempfile.mkdtemp(prefix="c03cache_")
    try:
        P.rebalance(reactions, confidence_threshold=t_first, cache=True, cache_dir=d)
        return P.rebalance(reactions, cache=True, cache_dir=d)
    finally:
        shutil.rmtree(d, ignore_errors=True)


def replay(d):
    if d["input"].get("kind") == "cached-history":
        rows = _cached_history(d["input"]["reactions"], d["input"]["t_first"])
        return any(P.row_c03(r) for r in rows)
    return PC.replay_pipeline(d, _row)


def check(run):
    PC.deductive(run)
    PC.bounded_rows(run, "declined-rows-untouched", _row)
    # the default-threshold claim also holds when the result cache is on and was filled by earlier runs under other thresholds
    sub = [r for r in P.CRAFTED if "[U]" not in r][:24]
    fails, cases = [], 0
    for t_first in (0.5, 0.99):
        try:
            rows = _cached_history(sub, t_first)
        except Exception as e:
            fails.append(({"kind": "cached-history", "reactions": sub, "t_first": t_first}, "cached run raised %r" % (e,)))
            continue
        for row in rows:
            cases += 1
            bad = P.row_c03(row)
            if bad:
                fails.append(({"kind": "cached-history", "reactions": sub, "t_first": t_first}, "default-threshold run over a cache filled at threshold %r: %s" % (t_first, bad)))
    run.bounded("default-threshold-run-over-a-shared-cache", "%d crafted reactions, cache filled under thresholds 0.5 and 0.99, then the default run" % len(sub),
                cases, 2, fails[:4], False)
