"""C09 - fragment merging conserves atoms and its reported rules explain the result (bounded stand-in through the
production fragment path: find_missing_parts_pairs -> build_compounds -> merge)."""
import random

from checks.props import c07_native
from specs import chem

SEED_MOLS = ["CCOC", "CCOC(C)=O", "CC(=O)NC", "CCN(C)C", "CCSC", "c1ccccc1OC", "c1ccccc1C(=O)OCC", "CCOP(=O)(OC)OC", "CC(C)Br", "CCCl", "CC(=O)Oc1ccccc1",
             "CNC(=O)OC", "COC(=O)OC", "CCOCCO", "CC(O)CN", "CC(=O)SC", "CS(=O)(=O)OC", "c1ccncc1CO", "OCC(O)CO", "CCONC", "[2H]C([2H])([2H])CCCOC",
             "[2H]c1ccccc1OC", "C[13CH2]OC", "CC[N+](C)(C)C", "CC(=O)[O-]", "C[SiH2]CC", "CC[NH2+]CC", "C[PH]CC", "CC[SH](=O)=O", "Cc1cc[nH]c1", "C[NH2+]C",
             "C[SiH3]", "CC[NH3+]", "Cn1ccc2ccccc12", "CCn1ccnc1", "CS(=O)(=O)NCC", "CS(=O)(=O)Cl", "Cn1cccc1", "CCn1cncn1", "COc1ccc(cc1)C(=O)NC", "CCOC(=O)CC(=O)OCC", "BrCCOC", "CCOB(O)O", "C[Si](C)(C)OC"]


def heavy(m):
    return sum(1 for a in m.GetAtoms() if a.GetAtomicNum() > 1)


def ncarbon(m):
    return sum(1 for a in m.GetAtoms() if a.GetAtomicNum() == 6)


def flat(smiles):
    """canonical SMILES without stereo marks"""
    from rdkit import Chem
    m = chem.mol(smiles)
    if m is None:
        return None
    Chem.RemoveStereochemistry(m)
    return Chem.MolToSmiles(m)


def cut_bonds(m):
    for b in m.GetBonds():
        if b.IsInRing() or b.GetBondType().name != "SINGLE":
            continue
        a, c = b.GetBeginAtom(), b.GetEndAtom()
        if a.GetAtomicNum() == 1 or c.GetAtomicNum() == 1:
            continue
        yield a.GetIdx(), c.GetIdx()


def fragments(m, a, b):
    from rdkit import Chem
    em = Chem.RWMol(m)
    em.RemoveBond(a, b)
    frags = Chem.GetMolFrags(em)
    fa = next(f for f in frags if a in f)
    fb = next(f for f in frags if b in f)
    return list(fa), list(fb)


SRC = {}
REPEAT = []
UPSTREAM = {"mislabelled": 0, "examples": []}
DONE = {"two": 0, "one": 0}


def compounds_for(m, keep_sets):
    """run the production fragment analysis: for each kept atom set the molecule minus that set is a missing part"""
    from rdkit import Chem
    from synrbl.SynMCSImputer.MissingGraph.find_missing_graphs import FindMissingGraphs
    from synrbl.SynMCSImputer.mcs_based_method import build_compounds
    mcs = []
    for ks in keep_sets:
        sm = Chem.MolFragmentToSmiles(m, atomsToUse=ks)
        q = Chem.MolFromSmarts(Chem.MolToSmarts(Chem.MolFromSmiles(sm))) if Chem.MolFromSmiles(sm) is not None else None
        if q is None:
            return None
        # the production analysis locates the common part by substructure search: only unambiguous cuts are meaningful
        hits = m.GetSubstructMatches(q, uniquify=True, maxMatches=5)
        if len(hits) != 1 or set(hits[0]) != set(ks):
            return None
        mcs.append(q)
    mols = [Chem.Mol(m) for _ in keep_sets]
    try:
        parts, bounds, neigh = FindMissingGraphs.find_missing_parts_pairs(mols, mcs)
    except Exception:
        return None  # the fragment analysis failed (contained by its caller in production): nothing reaches merge
    data = {"sorted_reactants": [SRC[id(m)] for x in mols],
            "smiles": [Chem.MolToSmiles(p) if p is not None else None for p in parts],
            "boundary_atoms_products": bounds, "nearest_neighbor_products": neigh,
            "mcs_results": [Chem.MolToSmarts(q) for q in mcs]}
    # The boundary index reported by the fragment analysis refers to the atom order of the part molecule before
    # FindGraphDict re-canonicalises it; when the radical/aromaticity repair changed the canonical order the index points
    # at another atom of the emitted SMILES (observed for organometallic '[CH2][Mg+]' cuts and [nH] rings).  That is an
    # upstream defect outside C09 (merge is handed a wrong attachment atom and bonds there faithfully), so the
    # attachment atom is determined independently here and the merge layer is exercised with the true one.
    if not (len(parts) == len(bounds) == len(neigh) == len(keep_sets)):
        return None  # rejected by build_compounds (ValueError contained by MCSBasedMethod.run): no merge happens
    for i, ks in enumerate(keep_sets):
        if data["smiles"][i] is None or not bounds[i] or len(bounds[i]) != 1:
            continue
        rest = set(range(m.GetNumAtoms())) - set(ks)
        cut_atom = [x for x in rest if any(n.GetIdx() in ks for n in m.GetAtomWithIdx(x).GetNeighbors())]
        q = Chem.MolFromSmiles(data["smiles"][i])
        if q is None or len(cut_atom) != 1 or q.GetNumAtoms() != len(rest):
            return None
        mts = [mt for mt in m.GetSubstructMatches(q, uniquify=False, maxMatches=2000) if set(mt) == rest]
        # a molecule used as query ignores hydrogen counts: prefer the embeddings that also agree in H (tautomeric [nH])
        exact = [mt for mt in mts if all(q.GetAtomWithIdx(j).GetTotalNumHs() == m.GetAtomWithIdx(x).GetTotalNumHs()
                                         for j, x in enumerate(mt) if x != cut_atom[0])]
        js = {mt.index(cut_atom[0]) for mt in (exact or mts)}
        if not js:
            return None
        sym, idx = list(bounds[i][0].items())[0]
        if idx not in js:
            UPSTREAM["mislabelled"] += 1
            if len(UPSTREAM["examples"]) < 3:
                UPSTREAM["examples"].append((SRC[id(m)], data["smiles"][i], idx, sorted(js)))
            bounds[i] = [{sym: min(js)}]
    try:
        cset = build_compounds(data)
    except ValueError:
        # build_compounds rejects a fragment analysis whose lists disagree in length (a substructure match that failed
        # for one of the copies); MCSBasedMethod.run contains that error, so no merge happens and C09 says nothing
        return None
    return cset, data


def judge(smiles, a, b):
    """list of (mode, message)"""
    from rdkit import Chem
    from synrbl.SynMCSImputer.merge import merge
    from synrbl.SynMCSImputer.rules import ExpandRule
    out = []
    m = chem.mol(smiles)
    SRC[id(m)] = smiles
    # smiles is canonical (see check): the atom order of the parsed string is the order the pipeline sees
    fa, fb = fragments(m, a, b)
    # ---- two fragments: must give back the molecule
    try:
        res = compounds_for(m, [fa, fb])
        if res is not None:
            cset, data = res
            if len([c for c in cset.compounds if len(c.boundaries) == 1]) == 2:
                try:
                    merged = merge(cset)
                    DONE["two"] += 1
                    rules = [r.name for r in merged.rules]
                    got = flat(merged.smiles)
                    if got is None:
                        out.append(("two", "merged product %r is not a valid molecule" % (merged.smiles,)))
                    elif len(merged.boundaries) != 0:
                        out.append(("two", "merged product still has an open attachment point"))
                    elif got != flat(smiles) and any("restriction" in r for r in rules):
                        mm = chem.mol(merged.smiles)
                        if heavy(mm) != heavy(m) or ncarbon(mm) != ncarbon(m):
                            out.append(("two", "cut %d-%d of %r: restricted merge %r does not conserve atoms" % (a, b, smiles, merged.smiles)))
                    elif got != flat(smiles):
                        mm = chem.mol(merged.smiles)
                        if heavy(mm) != heavy(m) or ncarbon(mm) != ncarbon(m):
                            out.append(("two", "cut %d-%d of %r: merge gives %r with different atoms (rules %r)" % (a, b, smiles, merged.smiles, rules)))
                        else:
                            out.append(("two", "cut %d-%d of %r: merge gives %r instead of the original molecule (rules %r)" % (a, b, smiles, merged.smiles, rules)))
                except ValueError as e:
                    if "No merge rule found" not in str(e):
                        out.append(("two", "cut %d-%d of %r: merge raised %r" % (a, b, smiles, e)))
    except Exception as e:
        out.append(("two", "cut %d-%d of %r: fragment preparation / merge raised %s: %s" % (a, b, smiles, type(e).__name__, str(e)[:150])))
    # ---- one open fragment: fragment + the compound of the reported expansion rule
    for keep, part in ((fa, fb), (fb, fa)):
        try:
            res = compounds_for(m, [keep])
            if res is None:
                continue
            cset, data = res
            comps = [c for c in cset.compounds if len(c.boundaries) == 1]
            if len(comps) != 1:
                continue
            part_mol = chem.mol(data["smiles"][0])
            merged = merge(cset)
            DONE["one"] += 1
            mm = chem.mol(merged.smiles)
            rules = [r.name for r in merged.rules]
            if mm is None:
                out.append(("one", "completing %r gives the invalid %r" % (data["smiles"][0], merged.smiles)))
                continue
            if len(merged.boundaries) != 0:
                out.append(("one", "completed product of %r still has an open attachment point" % (data["smiles"][0],)))
            exp = [r for r in ExpandRule.get_all() if r.name in rules]
            add_heavy = sum(heavy(chem.mol(r.compound["smiles"])) for r in exp)
            add_c = sum(ncarbon(chem.mol(r.compound["smiles"])) for r in exp)
            if heavy(mm) != heavy(part_mol) + add_heavy:
                out.append(("one", "completing %r (cut %d-%d of %r) gives %r: %d heavy atoms, fragment has %d and the reported rules %r add %d"
                            % (data["smiles"][0], a, b, smiles, merged.smiles, heavy(mm), heavy(part_mol), rules, add_heavy)))
            elif ncarbon(mm) != ncarbon(part_mol) + add_c:
                out.append(("one", "completing %r gives %r with a different number of carbon atoms" % (data["smiles"][0], merged.smiles)))
            elif len(Chem.GetMolFrags(mm)) != len(Chem.GetMolFrags(part_mol)) and exp:
                out.append(("one", "completing %r (cut %d-%d of %r) gives %r: the compound of rule %r is not bonded to the fragment"
                            % (data["smiles"][0], a, b, smiles, merged.smiles, rules)))
        except (ValueError, NotImplementedError) as e:
            if "No merge rule found" in str(e) or "not supported" in str(e):
                continue
            out.append(("one", "cut %d-%d of %r: completion raised %r" % (a, b, smiles, e)))
        except Exception as e:
            out.append(("one", "cut %d-%d of %r: completion raised %s: %s" % (a, b, smiles, type(e).__name__, str(e)[:150])))
    return out


def direct_fragments(m, a, b):
    """the two fragments of a cut written directly (independent of the upstream fragment analysis): the open valence of each cut atom
    is saturated with one explicit hydrogen; returns [(fragment SMILES, boundary index in it, index of the lost neighbour in the source)]"""
    from rdkit import Chem
    hs = {i: m.GetAtomWithIdx(i).GetTotalNumHs() for i in (a, b)}
    rw = Chem.RWMol(m)
    rw.RemoveBond(a, b)
    for i in (a, b):
        at = rw.GetAtomWithIdx(i)
        at.SetNumExplicitHs(hs[i] + 1)
        at.SetNoImplicit(True)
    Chem.SanitizeMol(rw)
    maps = []
    frags = Chem.GetMolFrags(rw, asMols=True, fragsMolAtomMapping=maps)
    out = []
    for fm, fmap in zip(frags, maps):
        fmap = list(fmap)
        own, other = (a, b) if a in fmap else (b, a)
        smi = Chem.MolToSmiles(fm)
        order = list(fm.GetPropsAsDict(True, True)["_smilesAtomOutputOrder"])
        out.append((smi, order.index(fmap.index(own)), other))
    return out


def judge_direct(smiles, a, b):
    """the same claims on directly written fragments: two-fragment merge, then each single-fragment completion, in that order"""
    from rdkit import Chem
    from synrbl.SynMCSImputer.merge import merge
    from synrbl.SynMCSImputer.rules import ExpandRule
    from synrbl.SynMCSImputer.structure import CompoundSet
    m = chem.mol(smiles)
    out = []
    try:
        frags = direct_fragments(m, a, b)
    except Exception:
        return out
    if len(frags) != 2:
        return out

    def cset_of(fs):
        cs = CompoundSet()
        for s_, bi, ni in fs:
            cs.add_compound(s_, src_mol=smiles).add_boundary(bi, neighbor_index=ni)
        return cs
    try:
        merged = merge(cset_of(frags))
        DONE["direct"] = DONE.get("direct", 0) + 1
        rules = [r.name for r in merged.rules]
        got = flat(merged.smiles)
        mm = chem.mol(merged.smiles)
        if got is None:
            out.append(("direct", "cut %d-%d of %r: merged product %r is not a valid molecule (rules %r)" % (a, b, smiles, merged.smiles, rules)))
        elif len(merged.boundaries) != 0:
            out.append(("direct", "cut %d-%d of %r: merged product still has an open attachment point" % (a, b, smiles)))
        elif heavy(mm) != heavy(m) or ncarbon(mm) != ncarbon(m):
            out.append(("direct", "cut %d-%d of %r: merge gives %r with different atoms (rules %r)" % (a, b, smiles, merged.smiles, rules)))
        elif got != flat(smiles) and not any("restriction" in r for r in rules):
            out.append(("direct", "cut %d-%d of %r: merge gives %r instead of the original molecule (rules %r)" % (a, b, smiles, merged.smiles, rules)))
        elif any("restriction" in r for r in rules) and got != flat(frags[0][0] + "." + frags[1][0]):
            out.append(("direct", "cut %d-%d of %r: restricted merge %r does not return the two fragments" % (a, b, smiles, merged.smiles)))
    except (ValueError, NotImplementedError) as e:
        if "No merge rule found" not in str(e) and "not supported" not in str(e):
            out.append(("direct", "cut %d-%d of %r: merge raised %r" % (a, b, smiles, e)))
    except Exception as e:
        out.append(("direct", "cut %d-%d of %r: merge raised %s: %s" % (a, b, smiles, type(e).__name__, str(e)[:120])))
    for f in frags:
        try:
            merged = merge(cset_of([f]))
            rules = [r.name for r in merged.rules]
            mm = chem.mol(merged.smiles)
            part = chem.mol(f[0])
            if mm is None:
                out.append(("direct", "completing %r (cut %d-%d of %r) gives the invalid %r" % (f[0], a, b, smiles, merged.smiles)))
                continue
            exp = [r for r in ExpandRule.get_all() if r.name in rules]
            add_heavy = sum(heavy(chem.mol(r.compound["smiles"])) for r in exp)
            if len(merged.boundaries) != 0:
                out.append(("direct", "completed product of %r still has an open attachment point" % (f[0],)))
            elif heavy(mm) != heavy(part) + add_heavy or ncarbon(mm) != ncarbon(part) + sum(ncarbon(chem.mol(r.compound["smiles"])) for r in exp):
                out.append(("direct", "completing %r (cut %d-%d of %r) gives %r: atoms not explained by the reported rules %r" % (f[0], a, b, smiles, merged.smiles, rules)))
            elif not exp and flat(merged.smiles) != flat(f[0]):
                out.append(("direct", "completing %r (cut %d-%d of %r) without an expansion rule gives %r instead of the fragment" % (f[0], a, b, smiles, merged.smiles)))
        except (ValueError, NotImplementedError) as e:
            if "No merge rule found" in str(e) or "not supported" in str(e):
                continue
            out.append(("direct", "cut %d-%d of %r: completion of %r raised %r" % (a, b, smiles, f[0], e)))
        except Exception as e:
            out.append(("direct", "cut %d-%d of %r: completion of %r raised %s: %s" % (a, b, smiles, f[0], type(e).__name__, str(e)[:120])))
    return out


def replay(d):
    inp = d["input"]
    if inp.get("kind") == "cut-direct":
        # state between merges matters: replay the whole recorded prefix
        bad = False
        for s_, a, b in inp.get("history", []) + [(inp["smiles"], inp["a"], inp["b"])]:
            bad = bool(judge_direct(s_, a, b))
        return bad
    return bool(judge(inp["smiles"], inp["a"], inp["b"]))


def check(run):
    run.level = "other"
    run.explanation = ("deductive for the rule selection in merge.py (expand_boundary, merge_boundaries, update_compound: the rule applied is the first applicable one "
                       "of its list; NoExpandRule / None exactly when none is applicable); the rules' own conditions and RDKit bond surgery are outside "
                       "the verified subset, so conservation and reconstruction are a bounded stand-in: every acyclic single bond of hand-picked and corpus molecules is cut, the open fragments are obtained through the production "
                       "path (find_missing_parts_pairs with the complementary fragment as common substructure, build_compounds) and given to the real merge")
    # deductive part: the rule selection of merge.py ("first applicable rule wins"), for every rule list
    run.deductive(["contracts.merge_select"])
    rnd = random.Random(run.seed)
    mols = list(SEED_MOLS) + [s for s in c07_native.corpus_molecules(limit=40 if run.tier == "quick" else 1500, seed=run.seed)
                              if chem.mol(s) is not None and 3 <= chem.mol(s).GetNumAtoms() <= (18 if run.tier == "quick" else 30)]
    fails, cases, pairs = [], 0, 0
    samples = []
    for s0 in mols:
        s = chem.clear_maps(s0)
        m = chem.mol(s) if s else None
        if m is None:
            continue
        bonds = list(cut_bonds(m))
        if run.tier == "quick" and len(bonds) > 4:
            bonds = rnd.sample(bonds, 4)
        for a, b in bonds:
            if s0 in SEED_MOLS:
                REPEAT.append((s, a, b))
            pairs += 1
            cases += 3
            for mode, msg in judge(s, a, b):
                fails.append(({"kind": "cut", "smiles": s, "a": a, "b": b}, msg))
            if len(samples) < 2:
                samples.append({"molecule": s, "cut": [a, b]})
    # the same claims on fragments written directly (explicit hydrogen on the cut atoms), every cut of the hand-picked molecules, two passes
    dfails, dcases, history = [], 0, []
    for rnd_pass in (1, 2):
        for s0, a, b in REPEAT:
            dcases += 3
            for mode, msg in judge_direct(s0, a, b):
                dfails.append(({"kind": "cut-direct", "smiles": s0, "a": a, "b": b, "history": list(history[-40:])}, ("second pass: " if rnd_pass == 2 else "") + msg))
            history.append((s0, a, b))
    run.bounded("cut-and-merge-direct", "%d (molecule, bond) pairs of the hand-picked molecules as directly written fragments, judged twice in one process"
                % len(REPEAT), dcases, len(REPEAT), dfails[:8], False)
    # the merge layer must not keep state between merges: the same (molecule, bond) pairs judged again at the end of the run, after all
    # the other merges of this process, must give the same verdicts
    first = {}
    for inp, msg in fails:
        first.setdefault((inp["smiles"], inp["a"], inp["b"]), []).append(msg)
    repeat_fails = []
    for s0, a, b in REPEAT[:60]:
        got = [m for _, m in judge(s0, a, b)]
        if sorted(got) != sorted(first.get((s0, a, b), [])):
            repeat_fails.append(({"kind": "cut", "smiles": s0, "a": a, "b": b},
                                 "cut %d-%d of %r judged again after the other merges of the run: %r (first time: %r)" % (a, b, s0, got, first.get((s0, a, b), []))))
    fails = fails + repeat_fails
    cases += 3 * len(REPEAT[:60])
    run.bounded("cut-and-merge", "%d molecules, %d (molecule, acyclic single bond) pairs, two-fragment merge and both single-fragment completions"
                % (len(mols), pairs), cases, pairs, fails[:8], False, samples)
    run.notes.append("merges actually performed: %d two-fragment, %d single-fragment (ambiguous cuts and failed fragment analyses are skipped)" % (DONE["two"], DONE["one"]))
    if UPSTREAM["mislabelled"]:
        run.notes.append("upstream of C09: the fragment analysis reported the attachment atom at a wrong index of the emitted SMILES for %d parts "
                         "(index computed before re-canonicalisation, e.g. %r); merge was exercised with the independently determined atom"
                         % (UPSTREAM["mislabelled"], UPSTREAM["examples"][:2]))
    if DONE["two"] < 10 or DONE["one"] < 10:
        run.undecided("C09/bounded:cut-and-merge", "too few merges were exercised (%r)" % (DONE,))
