"""C01 - a reaction reported as solved is balanced in every element and in charge."""
from checks import pipeline as P
from checks.props import pipeline_common as PC, c07_native


def _row(inp, row):
    return P.row_c01(row)


def replay(d):
    if d["input"].get("kind") in ("decompose", "table"):
        return c07_native.replay(d)
    return PC.replay_pipeline(d, _row)


def _without_post_processing(reaction):
    """the same reaction through the real pipeline with Balancer.__post_process disabled"""
    from synrbl import Balancer
    orig = Balancer._Balancer__post_process
    Balancer._Balancer__post_process = lambda self, reactions: None
    try:
        P._BAL.clear()
        return P.rebalance([reaction])
    finally:
        Balancer._Balancer__post_process = orig
        P._BAL.clear()


def _row_classified(inp, row):
    bad = P.row_c01(row)
    if bad is None:
        return None
    # known mechanism: the reagent-template overwrite of an already solved row by Balancer.__post_process
    # - accepted only for the permanganate / sulfuric acid template (the one that is balanced only with stoichiometric coefficients)
    #   and only when the same reaction is solved and balanced with __post_process disabled; any other template is reported
    if "[Mn]" not in str(row.get("reaction")):
        return bad
    rows = _without_post_processing(inp)
    if len(rows) == 1 and P.row_c01(rows[0]) is None and rows[0].get("solved"):
        return "POSTPROCESS " + bad
    return bad


def check(run):
    PC.deductive(run)
    c07_native.data_and_bounded(run)
    pairs, _ = PC.bounded_rows(run, "solved-rows-balanced", lambda i, r: None)
    fails = []
    for inp, row in pairs:
        bad = _row_classified(inp, row)
        if bad:
            fails.append(({"kind": "pipeline", "reaction": inp, "cfg": {}}, bad))
    pp = [f for f in fails if f[1].startswith("POSTPROCESS")]
    other = [f for f in fails if not f[1].startswith("POSTPROCESS")]
    run.bounded("post-process-overwrite", "rows of the runs above whose imbalance disappears when Balancer.__post_process is disabled", 0, 0, pp[:1], False)
    run.bounded("solved-rows-balanced:oracle", "independent balance oracle on every solved row of the runs above", len(pairs), len(pairs), other[:8], False)
    run.trust("assumed stage contracts (preprocess, RuleBasedMethod.run, ensemble_mcs, find_graph_dict, data_decomposer, run_parallel, "
              "check_carbon_balance) are monitored at run time on every pipeline run of the bounded part, not proved")
