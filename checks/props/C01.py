"""C01 - a reaction reported as solved is balanced in every element and in charge."""
from checks import pipeline as P
from checks.props import pipeline_common as PC, c07_native


def _row(inp, row):
    return P.row_c01(row)


def replay(d):
    if d["input"].get("kind") in ("decompose", "table"):
        return c07_native.replay(d)
    return PC.replay_pipeline(d, _row)


def check(run):
    run.deductive(PC.MODULES)
    c07_native.data_and_bounded(run)
    PC.bounded_rows(run, "solved-rows-balanced", _row)
    run.trust("assumed stage contracts (preprocess, RuleBasedMethod.run, ensemble_mcs, find_graph_dict, data_decomposer, run_parallel, "
              "check_carbon_balance) are monitored at run time on every pipeline run of the bounded part, not proved")
