#!/usr/bin/env python3
"""Falsehood probes of the VC generator: tiny functions (checks/selftest_src/probes.py) with clauses that are true (must be
proved) and clauses that are false (must not be proved).  A false clause that gets proved means the encoding is unsound:
exit 3.  A true clause that is not proved is reported (incompleteness) but is not an error.
Usage: checks/selftest.py        (about half a minute)"""
import os
import sys

HERE = os.path.dirname(os.path.abspath(__file__))
ROOT = os.path.dirname(HERE)
if os.environ.get("PYVC_SELFTEST_CHILD") != "1":
    env = dict(os.environ, PYVC_SELFTEST_CHILD="1", SYNRBL_REPO=os.path.join(HERE, "selftest_src"), PYTHONHASHSEED="0", PYVC_FAST="1")
    py = os.path.join(ROOT, ".venv", "bin", "python")
    os.execve(py if os.path.exists(py) else sys.executable, [py, os.path.abspath(__file__)] + sys.argv[1:], env)
sys.path.insert(0, ROOT)
from pyvc.run import verify, load_registry  # noqa: E402


def main():
    mods = ["checks.selftest_contracts"]
    load_registry(mods)
    from checks import selftest_contracts as SC
    import time
    from concurrent.futures import ProcessPoolExecutor
    from pyvc.run import _work
    t0 = time.time()
    with ProcessPoolExecutor(max_workers=14) as ex:       # many tiny functions: one worker each
        results = list(ex.map(_work, [(mods, q, 2) for q in sorted(SC.EXPECT)]))
    dt = time.time() - t0
    unsound, incomplete, n = [], [], 0
    if os.environ.get("V"):
        for r in sorted(results, key=lambda r: -sum(o["time"] for o in r["obligations"]))[:8]:
            print("time %6.1fs %s  %s" % (sum(o["time"] for o in r["obligations"]), r["qualname"],
                                          [(o["id"].split("/")[-1], o["time"], o["backend"][:25]) for o in r["obligations"] if o["time"] > 5]))
    for r in results:
        exp = SC.EXPECT[r["qualname"]]
        if r["status"] != "ok":
            # a probe outside the subset is refused as a whole: nothing is proved, in particular no false clause
            print("refused  %-10s %s" % (r["qualname"], r["reason"]))
            if "T" in exp and all(e == "T" for e in exp):
                incomplete.append(r["qualname"])
            continue
        if os.environ.get("V"):
            for o in r["obligations"]:
                print("      ", o["verdict"], o["id"], o["desc"][:90])
        if r["qualname"] in SC.VACUOUS:
            n += 1
            okv = r.get("exits") == "unsat"
            if not okv:
                unsound.append("%s/vacuity-guard" % r["qualname"])
            print("%-10s %-10s exits must be reported unreachable: %s" % ("ok" if okv else "UNSOUND", r["qualname"], r.get("exits")))
            continue
        SC_X = [c for c in SC.XNAMES.get(r["qualname"], [])]
        for sub in SC_X:
            obs = [o for o in r["obligations"] if sub in o["id"] or sub in o["desc"]]
            bad = [o for o in obs if o["verdict"] != "proved"]
            n += 1
            if not bad:
                unsound.append("%s/%s" % (r["qualname"], sub))
            print("%-10s %-10s an obligation about '%s' must fail: %s" % ("ok" if bad else "UNSOUND", r["qualname"], sub, bad[0]["id"] if bad else "none fails"))
        exp = [e for e in exp if e != "X"]
        for i, e in enumerate(exp):
            obs = [o for o in r["obligations"] if o["id"].endswith("ensures[%d]" % i)]
            proved = bool(obs) and all(o["verdict"] == "proved" for o in obs)
            n += 1
            tag = "ok"
            if e == "F" and proved:
                tag = "UNSOUND"
                unsound.append("%s/ensures[%d]" % (r["qualname"], i))
            elif e == "T" and not proved:
                tag = "incomplete"
                incomplete.append("%s/ensures[%d]" % (r["qualname"], i))
            print("%-10s %-10s ensures[%d] expected %s, %s" % (tag, r["qualname"], i, "proved" if e == "T" else "not proved", "proved" if proved else "not proved"))
    print("probes: %d clauses, %d unsound, %d incomplete, %.1fs" % (n, len(unsound), len(incomplete), dt))
    return 3 if unsound else 0


if __name__ == "__main__":
    sys.exit(main())
