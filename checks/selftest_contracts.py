"""Contracts of the falsehood probes: for each probe function one contract whose clauses are tagged T (true: must be
proved) or F (false: must NOT be proved).  A proved F clause means the encoding is unsound."""
from pyvc.vtypes import *  # noqa

SRC = "probes.py"
EXPECT = {}   # qualname -> list of 'T' / 'F' per ensures clause


def register(reg):
    def probe(q, params, returns, clauses, **kw):
        EXPECT[q] = [t for t, _ in clauses]
        kw.setdefault("modifies", []); reg.contract(SRC, q, params=params, returns=returns, ensures=[c for _, c in clauses], props=["SELF"], **kw)

    LL = List(List(INT))
    probe("row_sums", {"rows": LL}, List(INT), [
        ("T", "len(result) == len(rows)"),
        # a sum under a binder is a function of the bound row: the totals of different rows are unrelated
        ("F", "forall(range(0, len(result)), lambda j: result[j] == result[0])"),
        ("F", "forall(range(0, len(rows)), lambda j: forall(range(0, len(rows[j])), lambda k: rows[j][k] == rows[0][k]))"),
    ], fresh_result=True)
    probe("row_mins", {"rows": LL}, List(INT), [
        ("F", "forall(range(0, len(result)), lambda j: result[j] == result[0])"),
    ], fresh_result=True, raises={"ValueError": None})
    probe("swap", {"a": INT, "b": INT}, INT, [
        ("T", "result == b - a"),
        ("F", "result == a - b"),
    ])
    probe("two_lists", {}, INT, [
        ("T", "result == 1"),
        ("F", "result == 2"),
    ])
    probe("positives", {"xs": List(INT)}, List(INT), [
        ("T", "len(result) <= len(xs)"),
        ("T", "forall(range(0, len(result)), lambda j: result[j] > 0)"),
        ("F", "len(result) == len(xs)"),
        ("F", "forall(range(0, len(result)), lambda j: result[j] == xs[j])"),
    ], fresh_result=True)
    probe("ranked", {"xs": List(INT)}, List(INT), [
        ("T", "len(result) == len(xs)"),
        ("T", "forall(range(0, len(result)), lambda j: in_list(result[j], xs))"),
        ("F", "implies(len(xs) >= 1, result[0] == xs[0])"),
    ], fresh_result=True)
    probe("dedupe", {"pairs": LL}, LL, [
        ("T", "len(result) <= len(pairs)"),
        ("F", "len(result) == len(pairs)"),
        ("F", "len(result) <= 1"),
    ], fresh_result=True,
        loops={0: {"inv": ["fresh(out) and len(out) <= _i"]}},
        locals_types={"out": LL, "seen": SetT(SetT(Tuple(INT, INT)))})
    probe("count_pos", {"xs": List(INT)}, INT, [
        ("T", "result == sum(1 for x in xs if x > 0)"),
        ("T", "result >= 0 or True"),
        ("F", "result == len(xs)"),
        ("F", "result == 0"),
    ])
    probe("pairs_of", {"xs": List(INT)}, LL, [
        ("T", "len(result) == len(xs)"),
        # every binding builds its own list
        ("F", "forall(range(0, len(result)), lambda j: result[j] is result[0])"),
        ("F", "forall(range(0, len(result)), lambda j: result[j][0] == result[0][0])"),
    ], fresh_result=True)
    probe("parts", {"xs": List(STR)}, List(List(STR)), [
        ("F", "forall(range(0, len(result)), lambda j: len(result[j]) == len(result[0]))"),
        ("F", "forall(range(0, len(result)), lambda j: result[j] is result[0])"),
    ], fresh_result=True)
    probe("dicts_of", {"xs": List(INT)}, List(COMP), [
        ("F", "forall(range(0, len(result)), lambda j: result[j] is result[0])"),
        ("F", "forall(range(0, len(result)), lambda j: get0(result[j], 'v') == get0(result[0], 'v'))"),
    ], fresh_result=True)
    probe("firsts", {"rows": LL}, List(INT), [
        ("T", "len(result) <= len(rows)"),
        ("F", "len(result) == len(rows)"),
        ("F", "forall(range(0, len(result)), lambda j: result[j] == rows[j][0])"),
    ], fresh_result=True)
    probe("any_neg", {"rows": LL}, List(BOOL), [
        ("T", "len(result) == len(rows)"),
        ("F", "forall(range(0, len(result)), lambda j: result[j] == result[0])"),
    ], fresh_result=True)
    probe("total", {"xs": List(INT)}, INT, [
        ("T", "result == sum(x for x in xs)"),
        ("F", "result == 0"),
        ("F", "result >= 0"),
    ], loops={0: {"inv": ["t == sumto(_i, (x for x in xs))"]}})
    probe("update_all", {"ds": List(COMP)}, List(COMP), [
        ("T", "result is ds"),
        ("F", "forall(range(0, len(ds)), lambda j: get0(ds[j], 'n') == old(get0(ds[j], 'n')) + 1)"),   # false when two entries alias
        ("F", "forall(range(0, len(ds)), lambda j: get0(ds[j], 'n') == 1)"),
    ], loops={0: {"inv": ["True"]}}, modifies=["*D.str.int.dom", "*D.str.int.val"])
