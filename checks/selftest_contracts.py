"""Contracts of the falsehood probes: for each probe function one contract whose clauses are tagged T (true: must be
proved) or F (false: must NOT be proved).  A proved F clause means the encoding is unsound."""
from pyvc.vtypes import *  # noqa

SRC = "probes.py"
EXPECT = {}   # qualname -> list of 'T' / 'F' per ensures clause
XNAMES = {}   # qualname -> substrings of obligations that must fail
VACUOUS = set()   # functions whose exits must be reported unreachable


def register(reg):
    def probe(q, params, returns, clauses, **kw):
        EXPECT[q] = [t for t, _ in clauses]
        XNAMES[q] = [c for t, c in clauses if t == 'X']
        if any(t == 'V' for t, _ in clauses):
            VACUOUS.add(q)
        if returns is None:
            kw.setdefault("modifies", [])
            reg.contract(SRC, q, params=params, ensures=[c for t, c in clauses if t not in ('X', 'V')], props=["SELF"], **kw)
            return
        kw.setdefault("modifies", []); reg.contract(SRC, q, params=params, returns=returns, ensures=[c for t, c in clauses if t not in ('X', 'V')], props=["SELF"], **kw)

    LL = List(List(INT))
    probe("row_sums", {"rows": LL}, List(INT), [
        ("T", "len(result) == len(rows)"),
        # a sum under a binder is a function of the bound row: the totals of different rows are unrelated
        ("F", "forall(range(0, len(result)), lambda j: result[j] == result[0])"),
        ("F", "forall(range(0, len(rows)), lambda j: forall(range(0, len(rows[j])), lambda k: rows[j][k] == rows[0][k]))"),
    ], fresh_result=True)
    probe("row_mins", {"rows": LL}, List(INT), [
        ("F", "forall(range(0, len(result)), lambda j: result[j] == result[0])"),
    ], fresh_result=True, raises={"ValueError": None})
    probe("swap", {"a": INT, "b": INT}, INT, [
        ("T", "result == b - a"),
        ("F", "result == a - b"),
    ])
    probe("two_lists", {}, INT, [
        ("T", "result == 1"),
        ("F", "result == 2"),
    ])
    probe("positives", {"xs": List(INT)}, List(INT), [
        ("T", "len(result) <= len(xs)"),
        ("T", "forall(range(0, len(result)), lambda j: result[j] > 0)"),
        ("F", "len(result) == len(xs)"),
        ("F", "forall(range(0, len(result)), lambda j: result[j] == xs[j])"),
    ], fresh_result=True)
    probe("ranked", {"xs": List(INT)}, List(INT), [
        ("T", "len(result) == len(xs)"),
        ("T", "forall(range(0, len(result)), lambda j: in_list(result[j], xs))"),
        ("F", "implies(len(xs) >= 1, result[0] == xs[0])"),
    ], fresh_result=True)
    probe("dedupe", {"pairs": LL}, LL, [
        ("T", "len(result) <= len(pairs)"),
        ("F", "len(result) == len(pairs)"),
        ("F", "len(result) <= 1"),
    ], fresh_result=True,
        loops={0: {"inv": ["fresh(out) and len(out) <= _i"]}},
        locals_types={"out": LL, "seen": SetT(SetT(Tuple(INT, INT)))})
    probe("count_pos", {"xs": List(INT)}, INT, [
        ("T", "result == sum(1 for x in xs if x > 0)"),
        ("T", "result >= 0 or True"),
        ("F", "result == len(xs)"),
        ("F", "result == 0"),
    ])
    probe("pairs_of", {"xs": List(INT)}, LL, [
        ("T", "len(result) == len(xs)"),
        # every binding builds its own list
        ("F", "forall(range(0, len(result)), lambda j: result[j] is result[0])"),
        ("F", "forall(range(0, len(result)), lambda j: result[j][0] == result[0][0])"),
    ], fresh_result=True)
    probe("parts", {"xs": List(STR)}, List(List(STR)), [
        ("F", "forall(range(0, len(result)), lambda j: len(result[j]) == len(result[0]))"),
        ("F", "forall(range(0, len(result)), lambda j: result[j] is result[0])"),
    ], fresh_result=True)
    probe("dicts_of", {"xs": List(INT)}, List(COMP), [
        ("F", "forall(range(0, len(result)), lambda j: result[j] is result[0])"),
        ("F", "forall(range(0, len(result)), lambda j: get0(result[j], 'v') == get0(result[0], 'v'))"),
    ], fresh_result=True)
    probe("firsts", {"rows": LL}, List(INT), [
        ("T", "len(result) <= len(rows)"),
        ("F", "len(result) == len(rows)"),
        ("F", "forall(range(0, len(result)), lambda j: result[j] == rows[j][0])"),
    ], fresh_result=True)
    probe("any_neg", {"rows": LL}, List(BOOL), [
        ("T", "len(result) == len(rows)"),
        ("F", "forall(range(0, len(result)), lambda j: result[j] == result[0])"),
    ], fresh_result=True)
    probe("total", {"xs": List(INT)}, INT, [
        ("T", "result == sum(x for x in xs)"),
        ("F", "result == 0"),
        ("F", "result >= 0"),
    ], loops={0: {"inv": ["t == sumto(_i, (x for x in xs))"]}})
    probe("update_all", {"ds": List(COMP)}, List(COMP), [
        ("T", "result is ds"),
        ("F", "forall(range(0, len(ds)), lambda j: get0(ds[j], 'n') == old(get0(ds[j], 'n')) + 1)"),   # false when two entries alias
        ("F", "forall(range(0, len(ds)), lambda j: get0(ds[j], 'n') == 1)"),
    ], loops={0: {"inv": ["True"]}}, modifies=["*D.str.int.dom", "*D.str.int.val"])
    LI = List(INT)
    probe("last", {"xs": LI}, INT, [
        ("T", "implies(len(xs) == 0, result == 0)"),
        ("F", "result == 0"),
        ("F", "implies(len(xs) >= 1, result == xs[0])"),
    ], loops={0: {"inv": ["implies(_i == 0, r == 0)"]}})
    probe("app", {"a": LI, "b": LI}, INT, [
        ("T", "result >= old(len(b))"),
        ("F", "result == old(len(b))"),      # false when a is b
    ], modifies=["a"])
    probe("fdiv", {"a": INT, "b": INT}, INT, [
        ("T", "implies(a == -7 and b == 2, result == -4)"),
        ("F", "implies(a == -7 and b == 2, result == -3)"),
        ("T", "implies(a == 7 and b == -2, result == -4)"),
    ], requires=["b != 0"])
    probe("fmod", {"a": INT, "b": INT}, INT, [
        ("T", "implies(a == -7 and b == 2, result == 1)"),
        ("F", "implies(a == -7 and b == 2, result == -1)"),
        ("T", "implies(a == 7 and b == -2, result == -1)"),
    ], requires=["b != 0"])
    probe("either", {"a": INT, "b": INT}, INT, [
        ("T", "implies(a == 0, result == b)"),
        ("T", "implies(a != 0, result == a)"),
        ("F", "result == b"),
    ])
    probe("chain", {"a": INT, "b": INT, "c": INT}, BOOL, [
        ("T", "result == (a < b and b < c)"),
        ("F", "result == (a < c)"),
    ])
    probe("tail", {"xs": LI}, INT, [
        ("T", "result == xs[len(xs) - 1]"),
        ("F", "result == xs[0]"),
    ], raises={"IndexError": "len(xs) == 0"})
    probe("rest", {"xs": LI}, LI, [
        ("T", "implies(len(xs) >= 1, len(result) == len(xs) - 1)"),
        ("T", "implies(len(xs) == 0, len(result) == 0)"),
        ("F", "len(result) == len(xs) - 1"),
        ("F", "implies(len(xs) >= 2, result[0] == xs[0])"),
    ], fresh_result=True)
    probe("alias_row", {"rows": List(COMP)}, INT, [
        ("T", "result == 1"),
        ("F", "result == old(get0(rows[0], 'k'))"),
    ], modifies=["rows[0]"], raises={"IndexError": "len(rows) == 0"})
    probe("alias_list", {"a": LI}, INT, [
        ("T", "result == old(len(a)) + 1"),
        ("F", "result == old(len(a))"),
    ], modifies=["a"])
    probe("find_first", {"xs": LI, "v": INT}, INT, [
        ("T", "implies(result >= 0, xs[result] == v)"),
        ("T", "implies(result == -1, forall(range(0, len(xs)), lambda j: xs[j] != v))"),
        ("F", "result >= 0"),
        ("F", "result == -1"),
    ], loops={0: {"inv": ["forall(range(0, _i), lambda j: xs[j] != v)"]}})
    probe("skip_neg", {"xs": LI}, INT, [
        ("T", "0 <= result and result <= len(xs)"),
        ("F", "result == len(xs)"),
        ("F", "result == 0"),
    ], loops={0: {"inv": ["0 <= t and t <= _i"]}})
    probe("guarded", {"d": COMP, "k": STR}, INT, [
        ("T", "implies(k in d, result == d[k])"),
        ("T", "implies(not (k in d), result == -1)"),
        ("F", "result == -1"),
        ("F", "result != -1"),
    ])
    probe("cleanup", {"d": COMP, "k": STR}, INT, [
        ("T", "get0(d, 'seen') == 1"),
        ("F", "result == get0(d, k)"),       # false for k == 'seen'
    ], modifies=["d"], raises={"KeyError": "not (k in d)"}, ensures_exc={"KeyError": ["get0(d, 'seen') == 1"]})
    probe("popdefault", {"d": COMP, "k": STR}, INT, [
        ("T", "result == old(get0(d, k)) and not (k in d)"),
        ("F", "k in d"),
        ("F", "result == 0"),
    ], modifies=["d"])
    probe("setdef", {"d": COMP, "k": STR}, INT, [
        ("T", "implies(old(k in d), result == old(d[k]))"),
        ("T", "implies(not old(k in d), result == 5)"),
        ("F", "result == 5"),
    ], modifies=["d"])
    probe("delete", {"d": COMP, "k": STR}, BOOL, [
        ("T", "result == False"),
        ("F", "result == True"),
    ], modifies=["d"], raises={"KeyError": "not (k in d)"})
    probe("strjoin", {"a": STR, "b": STR}, STR, [
        ("T", "implies(a == 'x' and b == 'y', result == 'x.y')"),
        ("F", "result == a"),
    ])
    probe("ternary", {"a": INT}, INT, [
        ("T", "result == (2 if a == 0 else 1)"),
        ("F", "result == 1"),
    ])
    probe("inc", {"d": COMP, "k": STR}, None, [
        ("T", "get0(d, k) == old(get0(d, k)) + 1 and k in d"),
        ("T", "forall(STR, lambda q: implies(q != k, get0(d, q) == old(get0(d, q)) and (q in d) == old(q in d)))"),
    ], modifies=["d"])
    probe("twice", {"d": COMP, "e": COMP, "k": STR}, INT, [
        ("T", "result >= old(get0(d, k)) + 1"),
        ("F", "result == old(get0(d, k)) + 1"),     # false when d is e
        ("F", "result == old(get0(d, k)) + 2"),
    ], modifies=["d", "e"])
    probe("risky", {"x": INT}, INT, [("T", "result == x and x >= 0")], raises={"ValueError": "x < 0"})
    probe("caller", {"x": INT}, INT, [
        ("T", "result >= 0"),
        ("T", "result == (x if x >= 0 else 0)"),
        ("F", "result == x"),
    ])
    probe("ptotal", {"xs": LI}, INT, [("T", "result == sum(x for x in xs)")], pure=True)
    probe("same_total", {"a": LI}, INT, [
        ("F", "result == 0"),       # a pure function of a list is a function of its contents, not of the reference
        ("F", "result == 1"),
    ], modifies=["a"])
    reg.classdecl("Box", {"v": INT})
    probe("Box.getv", {"self": Obj("Box")}, INT, [("T", "result == self.v")], pure=True)
    probe("bump", {"b": Obj("Box")}, INT, [
        ("T", "b.v == old(b.v) + 1"),
        ("F", "result == 0"),
        ("F", "result == 2"),
    ], modifies=["b"])
    probe("dget", {"d": COMP, "k": STR}, INT, [("T", "result == get0(d, k)")], pure=True)
    probe("bump_dict", {"d": COMP, "k": STR}, INT, [
        ("T", "result == 1"),
        ("F", "result == 0"),
    ], modifies=["d"])
    probe("fill", {"n": INT}, LI, [
        ("T", "len(result) == (n if n >= 0 else 0)"),
        ("T", "forall(range(0, len(result)), lambda j: result[j] == j)"),
        ("F", "len(result) == n"),
        ("F", "forall(range(0, len(result)), lambda j: result[j] == 0)"),
    ], fresh_result=True, loops={0: {"inv": ["fresh(out) and len(out) == _i", "forall(range(0, _i), lambda j: out[j] == j)"]}},
        locals_types={"out": LI})
    probe("nested_old", {"rows": List(COMP)}, INT, [
        ("T", "result == len(rows)"),
        ("F", "forall(range(0, len(rows)), lambda j: get0(rows[j], 'c') == old(get0(rows[j], 'c')) + 1)"),   # false with repeated rows
        ("F", "forall(range(0, len(rows)), lambda j: get0(rows[j], 'c') == old(get0(rows[j], 'c')))"),
    ], modifies=["*D.str.int.dom", "*D.str.int.val"], loops={0: {"inv": ["True"]}})
    # clauses tagged X name an obligation (substring of its id) that must NOT be proved: undeclared effects are caught
    probe("ident", {"xs": LI}, LI, [("X", "fresh"), ("T", "len(result) == len(xs)")], fresh_result=True)
    probe("sneaky", {"d": COMP}, INT, [("X", "frame"), ("T", "result == 0")])
    probe("lookup", {"d": COMP, "k": STR}, INT, [("X", "no-KeyError"), ("T", "implies(k in d, result == d[k])")])
    probe("impure_len", {"xs": LI}, INT, [("X", "frame"), ("T", "result == len(xs)")], pure=True)
    reg.classdecl("Cell", {"v": INT})
    probe("two_cells", {"o1": Obj("Cell"), "o2": Obj("Cell")}, INT, [
        ("T", "result == 1 or result == 2"),
        ("T", "implies(not (o1 is o2), result == 1)"),
        ("F", "result == 1"),          # false when o1 is o2
    ], modifies=["o1", "o2"])
    probe("truthy_a", {"xs": LI, "d": COMP}, INT, [
        ("T", "implies(len(xs) == 0 and len(d) == 0, result == 0)"),
        ("T", "implies(len(xs) > 0 and len(d) == 0, result == 1)"),
        ("T", "implies(len(xs) > 0 and len(d) > 0, result == 11)"),
        ("F", "result >= 1"),
        ("F", "result <= 10"),
    ])
    probe("truthy_b", {"s": STR, "n": INT, "o": Ty("opt", INT)}, INT, [
        ("T", "implies(s == '' and n == 0 and not is_none(o), result == 0)"),
        ("T", "implies(s == 'a' and n == -1 and is_none(o), result == 11100)"),
        ("F", "result < 10000"),
        ("F", "implies(s != '', result < 100)"),
        ("F", "implies(n < 0, result < 1000)"),
    ])
    probe("countdown", {"n": INT}, INT, [
        ("T", "result == (n if n > 0 else 0)"),
        ("F", "result == n"),
        ("F", "result == 0"),
    ], loops={0: {"inv": ["k >= 0 and (n + k == old(n) if old(n) > 0 else (k == 0 and n == old(n)))", "implies(old(n) > 0, n >= 0)"]}})
    probe("ext", {"a": LI, "b": LI}, INT, [
        ("T", "implies(not (a is b), result == old(len(a)) + len(b))"),
        ("F", "result == old(len(a))"),
        ("F", "len(b) == old(len(b))"),      # false when a is b
    ], modifies=["a"])
    probe("popit", {"a": LI}, INT, [
        ("T", "result == old(a[len(a) - 1]) and len(a) == old(len(a)) - 1"),
        ("F", "len(a) == old(len(a))"),
        ("F", "result == old(a[0])"),
    ], modifies=["a"], raises={"IndexError": "len(a) == 0"})
    probe("concat", {"a": LI, "b": LI}, LI, [
        ("T", "len(result) == len(a) + len(b)"),
        ("T", "forall(range(0, len(a)), lambda j: result[j] == a[j])"),
        ("F", "result is a"),
        ("F", "forall(range(0, len(result)), lambda j: result[j] == a[j])"),
    ], fresh_result=True)
    probe("dict_sum", {"d": COMP}, INT, [
        ("T", "implies(len(d) == 0, result == 0)"),
        ("F", "result == 0"),
        ("F", "result >= 0"),
    ], loops={0: {"inv": ["implies(forall(STR, lambda q: not done(q)), t == 0)"]}})
    probe("dict_copy", {"d": COMP}, COMP, [
        ("T", "get0(result, 'z') == 0 and 'z' in result"),
        ("T", "forall(STR, lambda q: implies(q != 'z', get0(result, q) == get0(d, q)))"),
        ("F", "'z' in d"),
        ("F", "result is d"),
    ], fresh_result=True)
    probe("truediv", {"a": INT}, Ty("real"), [
        ("T", "implies(a == 7, result * 2 == 7)"),
        ("F", "implies(a == 7, result == 3)"),
    ])
    probe("halves", {"s": STR}, STR, [
        ("T", "implies(not contains(s, '.'), result == s)"),
        ("F", "result == s"),
    ])
    probe("has_dot", {"s": STR}, BOOL, [
        ("T", "implies(s == 'a.b', result)"),
        ("T", "implies(s == 'ab', not result)"),
        ("F", "result"),
    ])
    probe("maxlen", {"a": LI, "b": LI}, INT, [
        ("T", "result >= len(a) and result >= len(b)"),
        ("F", "result == len(a)"),
    ])
    probe("nested_set", {"rows": LL}, INT, [
        ("T", "implies(not (rows[0] is rows[1]), result == old(len(rows[1])))"),
        ("F", "result == old(len(rows[1]))"),     # false when rows[0] is rows[1]
    ], modifies=["rows[0]"], raises={"IndexError": "len(rows) < 2"})
    probe("early", {"xs": LI}, INT, [
        ("T", "len(xs) == old(len(xs)) + 1"),
        ("T", "implies(old(len(xs)) == 0, result == -1)"),
        ("F", "len(xs) == old(len(xs))"),
        ("F", "result == -1"),
    ], modifies=["xs"])
    # vacuity guard: an assumed callee with a contradictory postcondition makes every exit of its caller unreachable
    reg.contract(SRC, "oracle", params={"x": INT}, returns=INT, assumed=True, ensures=["result > x", "result < x"], modifies=[], props=["SELF"])
    probe("broken_dep", {"x": INT}, INT, [("V", "unsat"), ("F", "result == 5")])
