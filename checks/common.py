"""Shared machinery of the property checks: deductive runs, finite data obligations, bounded stand-ins,
known findings, replay files, evidence."""
import hashlib
import importlib
import json
import os
import sys
import time

ROOT = os.path.dirname(os.path.dirname(os.path.abspath(__file__)))
REPO = os.environ.get("SYNRBL_REPO", "/repo")
OUT = os.path.join(ROOT, "out", "replay")
EVID = os.path.join(ROOT, "evidence")
KNOWN = os.path.join(ROOT, "known_findings.json")

BASE_TRUST = [
    "pyvc (this repository's VC generator: /verif/pyvc) - its encoding of the Python subset is trusted; guarded by falsehood probes (checks/selftest.py: false clauses must stay unproved) and by native evaluation of proved contracts on concrete calls (checks/crosscheck.py, checks/runtime.py)",
    "z3 5.1.0 (z3-solver wheel) and cvc5 1.0.3 as decision procedures",
    "Python int = mathematical integer (exact); str = finite sequence of code points; dict = finite map with arbitrary iteration order",
    "TypeErrors excluded by the parameter types declared in the contracts (dynamic typing is not verified)",
    "termination is not proved (partial correctness)",
    "no concurrency: joblib/thread pools are modelled as order-preserving sequential maps",
]


def canon(x):
    return json.dumps(x, sort_keys=True, default=str)


def load_known():
    if not os.path.exists(KNOWN):
        return {"findings": [], "fixed": []}
    with open(KNOWN) as f:
        return json.load(f)


def engine_selftest():
    """falsehood probes of the VC generator (checks/selftest.py), once per version of the generator: a false clause that gets
    proved means nothing the generator says can be believed -> the check stops as a checker crash (exit 3)"""
    import glob
    import subprocess
    h = hashlib.sha256()
    files = sorted(glob.glob(os.path.join(ROOT, "pyvc", "*.py"))) + [os.path.join(ROOT, "checks", f) for f in
                                                                    ("selftest.py", "selftest_contracts.py", "selftest_src/probes.py")]
    for f in files:
        with open(f, "rb") as fh:
            h.update(fh.read())
    stamp = os.path.join(ROOT, "out", "selftest-%s.ok" % h.hexdigest()[:16])
    if os.path.exists(stamp):
        with open(stamp) as fh:
            return fh.read().strip()
    p = subprocess.run([os.path.join(ROOT, "checks", "selftest.py")], capture_output=True, text=True, timeout=1800)
    last = [l for l in p.stdout.splitlines() if l.startswith("probes:")]
    if p.returncode != 0 or not last:
        raise RuntimeError("engine self-test failed (exit %s):\n%s\n%s" % (p.returncode, p.stdout[-3000:], p.stderr[-1000:]))
    os.makedirs(os.path.dirname(stamp), exist_ok=True)
    with open(stamp, "w") as fh:
        fh.write(last[-1])
    return last[-1]


class Run:
    def __init__(self, pid, tier, seed):
        self.pid = pid
        self.tier = tier
        self.seed = seed
        self.t0 = time.time()
        self.obligations = []  # dicts: id, kind, verdict, backend, time, desc
        self.functions = []  # functions under contract (deductive)
        self.bounded_parts = []  # dicts: name, cases, distinct, bound, exhaustive, failures
        self.violations = []  # (oid, what, input, detail)
        self.undecided_items = []
        self.known_hits = []
        self.assumptions = []
        self.trusted = list(BASE_TRUST)
        self.samples = []
        self.notes = []
        self.level = "proof"
        self.explanation = ""
        self.solver_time = 0.0
        self.known = load_known()
        self.checker_cmd = "cd /verif && ./checks/run.py %s %s" % (pid, tier)
        self.extra = {}

    # ------------------------------------------------------------------ deductive part
    def deductive(self, modules, only=None, jobs=16):
        """verify every contract (in the given contract modules) that serves this property"""
        from pyvc.run import load_registry, verify
        if not getattr(self, "_selftested", False):
            self.notes.append("VC generator falsehood " + engine_selftest())
            self._selftested = True
        reg = load_registry(modules)
        quals = [q for q, c in reg.contracts.items()
                 if not c.assumed and (self.pid in c.props) and (only is None or q in only)]
        assumed = [q for q, c in reg.contracts.items() if c.assumed]
        if not quals:
            self.undecided("deductive", "no contract serves property %s" % self.pid)
            return
        results, dt = verify(modules, quals, jobs=jobs)
        for name, _b, text in reg.z3axioms:
            scope = reg.z3axiom_scope.get(name)
            if scope is None or scope & set(quals):
                self.trust("axiom %s: %s" % (name, text))
        for r in results:
            fn = {"function": r["qualname"], "file": r["file"], "source_sha256_16": r["sha"], "paths": r["paths"],
                  "status": r["status"], "dropped": r["dropped"], "notes": r["notes"],
                  "calls_by_contract": r["called"], "obligations": len(r["obligations"]),
                  "proved": sum(o["verdict"] == "proved" for o in r["obligations"]),
                  "requires_satisfiable": r.get("requires_sat"), "exit_reachable": r.get("exits")}
            self.functions.append(fn)
            if r["status"] == "crash":
                raise RuntimeError("engine crash in %s:\n%s" % (r["qualname"], r["reason"]))
            if r["status"] != "ok":
                self.undecided("%s:%s" % (r["file"], r["qualname"]), r["reason"])
                continue
            if r.get("requires_sat") == "unsat":
                self.undecided("%s:%s" % (r["file"], r["qualname"]), "contradictory precondition (vacuous contract)")
            if r.get("exits") in ("unsat", "no-exit"):
                self.undecided("%s:%s" % (r["file"], r["qualname"]),
                               "the hypotheses of every exit path are contradictory (assumed contracts / axioms / invariants exclude every run: vacuous)")
            own = reg.contracts.get(r["qualname"])
            if own is not None and own.note and not own.assumed:
                self.trust("%s: %s" % (r["qualname"], own.note))
            for q in r["called"]:
                c = reg.contracts.get(q)
                if c is not None and c.assumed:
                    self.trust("assumed contract of %s%s" % (q, (": " + c.note) if c.note else ""))
            # aggregate per stable key
            bykey = {}
            for o in r["obligations"]:
                bykey.setdefault(o["id"], []).append(o)
                self.solver_time += o["time"]
            for oid, obs in bykey.items():
                full = "%s/%s:%s" % (self.pid, r["file"], oid)
                verdicts = [o["verdict"] for o in obs]
                if all(v == "proved" for v in verdicts):
                    v = "proved"
                elif any(v == "failed" for v in verdicts):
                    v = "failed"
                else:
                    v = "unknown"
                self.obligations.append({"id": full, "kind": obs[0]["kind"], "verdict": v, "paths": len(obs),
                                         "backend": sorted(set(o["backend"] for o in obs)),
                                         "time_s": round(sum(o["time"] for o in obs), 3), "desc": obs[0]["desc"][:300]})
                if v == "failed":
                    bad = [o for o in obs if o["verdict"] == "failed"][0]
                    # look for a concrete call of the real function on which the same clause fails (replayable input)
                    found = None
                    try:
                        from checks import crosscheck
                        found = crosscheck.find_failing_input(r["qualname"], modules, self.seed)
                    except Exception:
                        found = None
                    if found is not None:
                        self.violation(full, "obligation fails: %s; concrete call of the real function: %s" % (bad["desc"][:200], found[1][:200]), found[0],
                                       {"line": bad["line"], "path": bad["trace"], "model": bad["model"], "backend": bad["backend"],
                                        "function": r["qualname"], "file": r["file"]})
                        continue
                    self.violation(full, "obligation fails: " + bad["desc"][:300], None,
                                   {"line": bad["line"], "path": bad["trace"], "model": bad["model"],
                                    "backend": bad["backend"], "function": r["qualname"], "file": r["file"]})
                elif v == "unknown":
                    self.undecided(full, "solver returned unknown: " + obs[0]["desc"][:200])
        return results

    def data_obligation(self, oid, ok, desc, detail=None, input=None):
        """a finite data obligation, decided by exhaustive evaluation"""
        full = "%s/%s" % (self.pid, oid)
        self.obligations.append({"id": full, "kind": "finite-data", "verdict": "proved" if ok else "failed",
                                 "backend": ["exhaustive evaluation (python)"], "time_s": 0, "desc": desc[:300]})
        if not ok:
            self.violation(full, desc, input, detail)

    # ------------------------------------------------------------------ bounded stand-ins
    def bounded(self, name, bound, cases, distinct, failures, exhaustive, samples=None):
        """record a bounded stand-in (never counted as proved). failures: list of (input, what)"""
        self.bounded_parts.append({"name": name, "bound": bound, "cases": cases, "distinct_nontrivial": distinct,
                                   "exhaustive_within_bound": exhaustive, "failures": len(failures)})
        if samples:
            self.samples.extend(samples[:3])
        for inp, what in failures:
            self.violation("%s/bounded:%s" % (self.pid, name), what, inp, None)

    # ------------------------------------------------------------------ verdict bookkeeping
    def trust(self, text):
        if text not in self.trusted:
            self.trusted.append(text)

    def assume(self, text):
        if text not in self.assumptions:
            self.assumptions.append(text)

    def undecided(self, oid, why):
        self.undecided_items.append((oid, why))

    def violation(self, oid, what, input=None, detail=None):
        for k in self.known["findings"]:
            if k.get("property") == self.pid and k.get("id") == oid and \
                    (k.get("input") is None or input is None or canon(k.get("input")) == canon(input)):
                hit = (oid, k.get("what", what), k.get("input"))
                if hit not in self.known_hits:
                    self.known_hits.append(hit)
                return
        self.violations.append((oid, what, input, detail))

    # ------------------------------------------------------------------ finish
    def finish(self):
        os.makedirs(OUT, exist_ok=True)
        os.makedirs(EVID, exist_ok=True)
        lines = []
        for oid, what, inp in self.known_hits:
            lines.append("KNOWN-FINDING: property=%s %s [%s]%s" % (self.pid, what, oid,
                                                                  (" input=" + canon(inp)) if inp is not None else ""))
        vio_paths = []
        for n, (oid, what, inp, detail) in enumerate(self.violations):
            path = os.path.join(OUT, "%s-%s-%d.json" % (self.pid, self.tier, n))
            with open(path, "w") as f:
                json.dump({"property": self.pid, "obligation": oid, "what": what, "input": inp, "detail": detail,
                           "replay": "cd /verif && ./checks/run.py --replay %s" % path,
                           "no_failing_input_found": inp is None}, f, indent=1, default=str)
            vio_paths.append(path)
            tail = "" if inp is not None else " no-failing-input-found"
            lines.append("VIOLATION property=%s replay=%s obligation=%s : %s%s" % (self.pid, path, oid, what[:200], tail))
        for oid, why in self.undecided_items:
            lines.append("UNDECIDED property=%s %s : %s" % (self.pid, oid, why[:300]))
        known_ids = {o for o, _, _ in self.known_hits}
        open_known = [o for o in self.obligations if o["verdict"] != "proved" and o["id"] in known_ids]
        counted = [o for o in self.obligations if o not in open_known]
        n_obl = len(counted)
        n_ok = sum(o["verdict"] == "proved" for o in counted)
        # obligations that fail only because of a listed known finding are reported as not discharged
        cov = {
            "obligations": n_obl,
            "discharged": n_ok,
            "checker_cmd": self.checker_cmd,
            "trusted_base": self.trusted,
            "functions_under_contract": self.functions,
            "obligation_list": self.obligations,
            "solver_time_s": round(self.solver_time, 2),
            "bounded_stand_ins": self.bounded_parts,
            "known_findings_printed": [{"id": o, "what": w, "input": i} for o, w, i in self.known_hits],
            "undecided": [{"id": o, "why": w} for o, w in self.undecided_items],
            "obligations_failing_as_listed_known_findings": [o["id"] for o in open_known],
            "samples": self.samples or [o["id"] + " :: " + o["desc"] for o in self.obligations[:3]],
            "notes": self.notes,
            "explanation": self.explanation or
            "deductive obligations generated from /repo's current source and discharged by z3/cvc5; "
            "bounded stand-ins are listed separately and are not counted as proved",
        }
        cases = sum(b["cases"] for b in self.bounded_parts)
        dist = sum(b["distinct_nontrivial"] for b in self.bounded_parts)
        cov["evaluations"] = max(1, cases + n_obl)
        cov["distinct_nontrivial"] = max(2, dist + n_obl)
        cov["rule"] = ("obligations: one per (function, contract clause / loop invariant / call-site precondition / frame), "
                       "aggregated over paths; bounded cases: distinct inputs enumerated within the stated bound")
        cov["exhaustive"] = False
        cov.update(self.extra)
        ev = {
            "property_id": self.pid, "tier": self.tier, "seed": self.seed, "level": self.level,
            "coverage": cov, "assumptions": self.assumptions + self.trusted,
            "wall_s": round(time.time() - self.t0, 2), "violations": len(self.violations),
        }
        with open(os.path.join(EVID, "%s.json" % self.pid), "w") as f:
            json.dump(ev, f, indent=1, default=str)
        for l in lines:
            print(l)
        print("SUMMARY property=%s tier=%s obligations=%d discharged=%d bounded_cases=%d known=%d violations=%d undecided=%d wall=%.1fs"
              % (self.pid, self.tier, n_obl, n_ok, cases, len(self.known_hits), len(self.violations),
                 len(self.undecided_items), time.time() - self.t0))
        if self.violations:
            return 1
        if self.undecided_items:
            return 2
        return 0


def replay_file(path):
    with open(path) as f:
        d = json.load(f)
    pid = d["property"]
    mod = importlib.import_module("checks.props.%s" % pid)
    if isinstance(d.get("input"), dict) and d["input"].get("kind") == "crosscheck":
        from checks import crosscheck
        bad = crosscheck.replay_input(d["input"])
        print("replay: %s on %s(%s): %s" % (d["obligation"], d["input"]["function"], d["input"]["kwargs"][:200], "STILL FAILS" if bad else "does not fail any more"))
        return 1 if bad else 0
    if d.get("input") is None or not hasattr(mod, "replay"):
        print("replay: no concrete input recorded for %s (obligation %s); verifier output follows" % (pid, d["obligation"]))
        print(json.dumps(d.get("detail"), indent=1))
        return 1
    bad = mod.replay(d)
    print("replay: %s %s" % (d["obligation"], "STILL FAILS" if bad else "does not fail any more"))
    return 1 if bad else 0


def parallel_map(func, items, budget_s, procs=16, chunksize=4):
    """run func over items in a process pool within a wall-clock budget.
    returns (results list of (item, result), n_skipped). func must be a module-level function."""
    import multiprocessing as mp
    t0 = time.time()
    out = []
    items = list(items)
    if not items:
        return out, 0
    ctx = mp.get_context("fork")
    pool = ctx.Pool(min(procs, len(items)))
    try:
        it = pool.imap_unordered(func, items)
        while True:
            left = budget_s - (time.time() - t0)
            if left <= 0:
                break
            try:
                out.append(it.next(timeout=left))
            except mp.TimeoutError:
                break
            except StopIteration:
                break
    finally:
        pool.terminate()
        pool.join()
    return out, len(items) - len(out)
