"""CPython cross-check of the prover: contracts that pyvc has *proved* are evaluated natively (pyvc/native.py, the same
contract text) on random concrete inputs of the real functions.  A clause that the prover discharged but that fails on a
concrete call would expose an unsound encoding (or a wrong reading of Python's semantics); a bounded stand-in, reported
separately and never counted as proved."""
import random

from pyvc.native import Monitor

ELEMS = ["C", "H", "O", "N", "Cl", "Na", "Q", "S"]


def rand_comp(rnd, allow_zero=False, lo=1, hi=4, with_q=None):
    d = {}
    for e in rnd.sample(ELEMS[:-2] + ["S"], rnd.randint(0, 4)):
        d[e] = rnd.randint(0 if allow_zero else lo, hi)
        if d[e] == 0 and not allow_zero:
            d[e] = 1
    if with_q is True or (with_q is None and rnd.random() < 0.4):
        q = rnd.randint(-2, 2)
        if q != 0 or allow_zero:
            d["Q"] = q
    return d


def _cases_comparator(rnd, n):
    out = []
    for _ in range(n):
        a = rand_comp(rnd)
        b = dict(a) if rnd.random() < 0.25 else rand_comp(rnd)
        if rnd.random() < 0.2:
            b = {k: v + rnd.randint(0, 1) for k, v in a.items() if k != "Q"}
        out.append((a, b))
    return out


def run_crosscheck(run, reg, which, n):
    """which: list of qualnames (of contracts registered in reg); returns (cases, failures)"""
    rnd = random.Random(run.seed)
    fails, cases = [], 0

    def call(q, func, kwargs):
        nonlocal cases
        c = reg.contracts[q]
        mon = Monitor(c, SPECFUNS)
        cases += 1
        res, bad, status = mon.call(func, kwargs)
        if status == "skipped":
            return
        for b in bad:
            fails.append(({"kind": "crosscheck", "function": q, "kwargs": repr(kwargs)}, "%s: proved clause fails on a concrete call: %s" % (q, b)))

    if "RSMIComparator.compare_dicts" in which:
        from synrbl.SynProcessor.rsmi_comparator import RSMIComparator as RC
        for a, b in _cases_comparator(rnd, n):
            call("RSMIComparator.compare_dicts", RC.compare_dicts, {"reactant": dict(a), "product": dict(b)})
            call("RSMIComparator.diff_dicts", RC.diff_dicts, {"reactant": dict(a), "product": dict(b)})
            call("RSMIComparator.check_keys", RC.check_keys, {"dict1": dict(a), "dict2": dict(b)})
    if "merge_stats" in which:
        from synrbl.balancing import merge_stats
        for _ in range(n):
            a = {k: rnd.randint(0, 5) for k in rnd.sample(["a", "b", "c", "d"], rnd.randint(0, 4))}
            b = {k: rnd.randint(0, 5) for k in rnd.sample(["a", "b", "c", "e"], rnd.randint(0, 4))}
            call("merge_stats", merge_stats, {"stats": a if rnd.random() < 0.9 else None, "new_stats": b})
    if "SyntheticRuleMatcher.exit_strategy_solution" in which:
        from synrbl.SynRuleImputer.synthetic_rule_matcher import SyntheticRuleMatcher as M
        for _ in range(n):
            d = rand_comp(rnd, allow_zero=True, with_q=True)
            d.setdefault("Q", 0)
            call("SyntheticRuleMatcher.exit_strategy_solution", M.exit_strategy_solution, {"data": d})
            r = rand_comp(rnd, with_q=True)
            m = M([], {})
            call("SyntheticRuleMatcher.can_match", lambda rule, data: m.can_match(rule, data), {"rule": r, "data": d})
    if "CheckCarbonBalance.process_reaction" in which:
        from synrbl.SynProcessor.check_carbon_balance import CheckCarbonBalance as CB
        from checks import pipeline as P
        pool = [r for r in P.CRAFTED] + ["CC.CC>>CCCC", "CC.CC.O>>CCCC.O.O", "C>>", ">>C", "CC>CC", "C(C>>CC", "CC>>C(C", "", "CCO>>CC=O>>C", "[Na+].[Cl-]>>[Na]Cl"]
        for _ in range(n):
            r = rnd.choice(pool)
            if rnd.random() < 0.3:
                a, _, b = r.partition(">>")
                r = ".".join([a] * rnd.randint(1, 2)) + ">>" + b
            row = {"reaction": r, "id": str(rnd.randint(0, 9))}
            if rnd.random() < 0.05:
                row = {"id": "0"}
            call("CheckCarbonBalance.process_reaction",
                 lambda reaction, rsmi_col, symbol, atom_type: CB.process_reaction(reaction, rsmi_col, symbol, atom_type, {}),
                 {"reaction": row, "rsmi_col": "reaction", "symbol": ">>", "atom_type": "C"})
    return cases, fails


def _F(q, *args):
    """F('qualname', args...): the value of a pure program function, natively"""
    if q == "CheckCarbonBalance.count_atoms":
        from synrbl.SynProcessor.check_carbon_balance import CheckCarbonBalance as CB
        return CB.count_atoms(args[0], args[1], {})
    raise KeyError(q)


SPECFUNS = {"F": _F}


def bounded_part(run, modules, which, n_quick=200, n_thorough=3000):
    """record the cross-check as a bounded stand-in of a property check"""
    from pyvc.run import load_registry
    reg = load_registry(modules)
    cases, fails = run_crosscheck(run, reg, which, n_quick if run.tier == "quick" else n_thorough)
    run.bounded("prover-cross-check", "the proved contracts of %s evaluated natively (same contract text) on random concrete calls of the real functions"
                % ", ".join(which), cases, cases, fails[:5], False)


# ---------------------------------------------------------------- failing-input search for a failed deductive obligation
GENERATORS = {
    "RSMIComparator.compare_dicts": ("contracts.comparator", "RSMIComparator.compare_dicts"),
    "RSMIComparator.diff_dicts": ("contracts.comparator", "RSMIComparator.compare_dicts"),
    "RSMIComparator.check_keys": ("contracts.comparator", "RSMIComparator.compare_dicts"),
    "merge_stats": ("contracts.balancing", "merge_stats"),
    "SyntheticRuleMatcher.exit_strategy_solution": ("contracts.matcher", "SyntheticRuleMatcher.exit_strategy_solution"),
    "SyntheticRuleMatcher.can_match": ("contracts.matcher", "SyntheticRuleMatcher.exit_strategy_solution"),
    "CheckCarbonBalance.process_reaction": ("contracts.rows", "CheckCarbonBalance.process_reaction"),
}


def _callable(q):
    if q.startswith("RSMIComparator."):
        from synrbl.SynProcessor.rsmi_comparator import RSMIComparator as RC
        return getattr(RC, q.split(".")[1])
    if q == "merge_stats":
        from synrbl.balancing import merge_stats
        return merge_stats
    if q == "CheckCarbonBalance.process_reaction":
        from synrbl.SynProcessor.check_carbon_balance import CheckCarbonBalance as CB
        return lambda reaction, rsmi_col, symbol, atom_type: CB.process_reaction(reaction, rsmi_col, symbol, atom_type, {})
    from synrbl.SynRuleImputer.synthetic_rule_matcher import SyntheticRuleMatcher as M
    if q.endswith("can_match"):
        m = M([], {})
        return lambda rule, data: m.can_match(rule, data)
    return M.exit_strategy_solution


def find_failing_input(q, modules, seed=0, n=4000):
    """search concrete calls of the real function q for one on which its contract (same text, evaluated natively) fails.
    returns (kwargs, clause) or None"""
    if q not in GENERATORS:
        return None
    from pyvc.run import load_registry

    class _R:
        pass
    r = _R()
    r.seed = seed
    reg = load_registry(modules)
    _, fails = run_crosscheck(r, reg, [GENERATORS[q][1]], n)
    for inp, what in fails:
        if inp["function"] == q:
            return inp, what
    return None


def replay_input(inp, modules=("contracts.rows", "contracts.externals", "contracts.comparator", "contracts.decomposer", "contracts.balancing", "contracts.matcher")):
    """re-evaluate the contract of inp['function'] on the recorded concrete call"""
    import ast as _ast
    from pyvc.run import load_registry
    reg = load_registry(list(modules))
    q = inp["function"]
    kwargs = _ast.literal_eval(inp["kwargs"])
    mon = Monitor(reg.contracts[q], SPECFUNS)
    res, bad, status = mon.call(_callable(q), kwargs)
    return bool(bad)
