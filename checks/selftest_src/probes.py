"""Small functions for the falsehood probes of the VC generator (checks/selftest.py).  Never imported by the checks."""


def row_sums(rows):
    return [sum(x for x in r) for r in rows]


def row_mins(rows):
    return [min(x for x in r) for r in rows]


def swap(a, b):
    a, b = b, a
    return a - b


def two_lists():
    xs, ys = [], []
    xs.append(1)
    return len(xs) + len(ys)


def positives(xs):
    return [x for x in xs if x > 0]


def ranked(xs):
    return sorted(xs, key=lambda v: -v)


def dedupe(pairs):
    out = []
    seen = set()
    for p in pairs:
        k = frozenset((q, q + 1) for q in p)
        if k not in seen:
            seen.add(k)
            out.append(p)
    return out


def count_pos(xs):
    return sum(1 for x in xs if x > 0)


def pairs_of(xs):
    return [[x, x + 1] for x in xs]


def parts(xs):
    return [s.split(".") for s in xs]


def dicts_of(xs):
    return [{"v": x} for x in xs]


def firsts(rows):
    return [r[0] for r in rows if len(r) > 0]


def any_neg(rows):
    return [any(x < 0 for x in r) for r in rows]


def total(xs):
    t = 0
    for x in xs:
        t += x
    return t


def update_all(ds):
    for d in ds:
        d["n"] = d.get("n", 0) + 1
    return ds


def last(xs):
    r = 0
    for x in xs:
        r = x
    return r


def app(a, b):
    a.append(1)
    return len(b)


def fdiv(a, b):
    return a // b


def fmod(a, b):
    return a % b


def either(a, b):
    return a or b


def chain(a, b, c):
    return a < b < c


def tail(xs):
    return xs[-1]


def rest(xs):
    return xs[1:]


def alias_row(rows):
    row = rows[0]
    row["k"] = 1
    return rows[0]["k"]


def alias_list(a):
    b = a
    b.append(7)
    return len(a)


def find_first(xs, v):
    for i, x in enumerate(xs):
        if x == v:
            return i
    return -1


def skip_neg(xs):
    t = 0
    for x in xs:
        if x < 0:
            continue
        if x > 100:
            break
        t += 1
    return t


def guarded(d, k):
    try:
        return d[k]
    except KeyError:
        return -1


def cleanup(d, k):
    try:
        v = d[k]
    finally:
        d["seen"] = 1
    return v


def popdefault(d, k):
    return d.pop(k, 0)


def setdef(d, k):
    d.setdefault(k, 5)
    return d[k]


def delete(d, k):
    del d[k]
    return k in d


def strjoin(a, b):
    return a + "." + b


def ternary(a):
    return 1 if a else 2


def inc(d, k):
    d[k] = d.get(k, 0) + 1


def twice(d, e, k):
    inc(d, k)
    inc(e, k)
    return d[k]


def risky(x):
    if x < 0:
        raise ValueError("negative")
    return x


def caller(x):
    try:
        return risky(x)
    except ValueError:
        return 0


def ptotal(xs):
    return sum(x for x in xs)


def same_total(a):
    t1 = ptotal(a)
    a.append(5)
    t2 = ptotal(a)
    return t2 - t1


class Box:
    def __init__(self, v):
        self.v = v

    def getv(self):
        return self.v


def bump(b):
    x = b.getv()
    b.v = b.v + 1
    y = b.getv()
    return y - x


def dget(d, k):
    return d.get(k, 0)


def bump_dict(d, k):
    x = dget(d, k)
    d[k] = x + 1
    y = dget(d, k)
    return y - x


def fill(n):
    out = []
    for i in range(n):
        out.append(i)
    return out


def nested_old(rows):
    for r in rows:
        r["c"] = r.get("c", 0) + 1
    return len(rows)


def ident(xs):
    return xs


def sneaky(d):
    d["x"] = 1
    return 0


def lookup(d, k):
    return d[k]


def impure_len(xs):
    xs.append(0)
    return len(xs)


class Cell:
    def __init__(self, v):
        self.v = v


def two_cells(o1, o2):
    o1.v = 1
    o2.v = 2
    return o1.v


def truthy_a(xs, d):
    r = 0
    if xs:
        r += 1
    if d:
        r += 10
    return r


def truthy_b(s, n, o):
    r = 0
    if s:
        r += 100
    if n:
        r += 1000
    if o is None:
        r += 10000
    return r


def countdown(n):
    k = 0
    while n > 0:
        n -= 1
        k += 1
    return k


def ext(a, b):
    a.extend(b)
    return len(a)


def popit(a):
    return a.pop()


def concat(a, b):
    return a + b


def dict_sum(d):
    t = 0
    for k, v in d.items():
        t += v
    return t


def dict_copy(d):
    e = dict(d)
    e["z"] = 0
    return e


def truediv(a):
    return a / 2


def halves(s):
    return s.split(".")[0]


def has_dot(s):
    return "." in s


def maxlen(a, b):
    return max(len(a), len(b))


def nested_set(rows):
    rows[0].append(1)
    return len(rows[1])


def early(xs):
    try:
        if len(xs) == 0:
            return -1
        return xs[0]
    finally:
        xs.append(9)


def oracle(x):
    return x


def broken_dep(x):
    return oracle(x) + 1
