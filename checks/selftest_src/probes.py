"""Small functions for the falsehood probes of the VC generator (checks/selftest.py).  Never imported by the checks."""


def row_sums(rows):
    return [sum(x for x in r) for r in rows]


def row_mins(rows):
    return [min(x for x in r) for r in rows]


def swap(a, b):
    a, b = b, a
    return a - b


def two_lists():
    xs, ys = [], []
    xs.append(1)
    return len(xs) + len(ys)


def positives(xs):
    return [x for x in xs if x > 0]


def ranked(xs):
    return sorted(xs, key=lambda v: -v)


def dedupe(pairs):
    out = []
    seen = set()
    for p in pairs:
        k = frozenset((q, q + 1) for q in p)
        if k not in seen:
            seen.add(k)
            out.append(p)
    return out


def count_pos(xs):
    return sum(1 for x in xs if x > 0)


def pairs_of(xs):
    return [[x, x + 1] for x in xs]


def parts(xs):
    return [s.split(".") for s in xs]


def dicts_of(xs):
    return [{"v": x} for x in xs]


def firsts(rows):
    return [r[0] for r in rows if len(r) > 0]


def any_neg(rows):
    return [any(x < 0 for x in r) for r in rows]


def total(xs):
    t = 0
    for x in xs:
        t += x
    return t


def update_all(ds):
    for d in ds:
        d["n"] = d.get("n", 0) + 1
    return ds
