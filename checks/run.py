#!/verif/.venv/bin/python
"""Run the check of one property:  run.py <Cxx> quick|thorough   |   run.py --replay <file>

exit 0  property held on everything explored (known findings printed as KNOWN-FINDING)
exit 1  a violation that known_findings.json does not list (line: VIOLATION property=<id> replay=<path>)
exit 2  undecided (solver unknown / function outside the verified subset / stale contract) - never a violation
exit 3  the checker itself crashed
"""
import importlib
import json
import os
import sys
import time
import traceback

if os.environ.get("PYTHONHASHSEED") != "0" or os.environ.get("OMP_NUM_THREADS") != "1":
    os.environ["PYTHONHASHSEED"] = "0"  # deterministic verification conditions
    os.environ["OMP_NUM_THREADS"] = "1"  # no OpenMP pool: forked workers that call xgboost would deadlock on it
    os.execv(sys.executable, [sys.executable] + sys.argv)
HERE = os.path.dirname(os.path.abspath(__file__))
ROOT = os.path.dirname(HERE)
sys.path.insert(0, ROOT)
os.environ.setdefault("SYNRBL_REPO", "/repo")

from checks import common  # noqa: E402


def main(argv):
    if len(argv) >= 2 and argv[0] == "--replay":
        return common.replay_file(argv[1])
    if len(argv) < 1:
        print(__doc__)
        return 3
    pid = argv[0]
    tier = argv[1] if len(argv) > 1 else os.environ.get("VERIF_TIER", "quick")
    seed = int(os.environ.get("VERIF_SEED", "0"))
    try:
        mod = importlib.import_module("checks.props.%s" % pid)
    except ModuleNotFoundError:
        print("no check for property %s" % pid)
        return 3
    run = common.Run(pid, tier, seed)
    try:
        mod.check(run)
        return run.finish()
    except Exception:
        traceback.print_exc()
        print("CHECKER-CRASH property=%s" % pid)
        return 3


if __name__ == "__main__":
    sys.exit(main(sys.argv[1:]))
