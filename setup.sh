#!/bin/bash
# Build the overlay venv (offline) used by every check: base CPython 3.12.1 +
# z3-solver/cvc5/crosshair/deal/icontract/jsonschema from the local wheelhouse,
# with /venv's site-packages (rdkit, pandas, synrbl editable -> /repo) appended.
set -e
cd "$(dirname "$0")"
PY=/root/.pyenv/versions/3.12.1/bin/python3
[ -x "$PY" ] || PY=$(/venv/bin/python -c 'import sys,os;print(os.path.realpath(sys.executable))')
if [ ! -x .venv/bin/python ] || ! .venv/bin/python -c 'import z3, cvc5, jsonschema, rdkit, synrbl' 2>/dev/null; then
  rm -rf .venv
  "$PY" -m venv .venv
  PIP_NO_INDEX=1 .venv/bin/pip install -q --no-index --find-links /opt/veriftools/wheels \
      z3-solver cvc5 crosshair-tool deal icontract jsonschema
  SP=$(.venv/bin/python -c 'import site;print(site.getsitepackages()[0])')
  echo "import site; site.addsitedir('/venv/lib/python3.12/site-packages')" > "$SP/zz_overlay.pth"
fi
.venv/bin/python -c 'import z3, cvc5, jsonschema, rdkit, pandas, synrbl, os; print("setup ok", z3.get_version_string(), os.path.dirname(synrbl.__file__))'
