"""Native spec functions (oracles), independent of SynRBL's own decomposer / comparator.

Comp(s): element -> count (all hydrogens included) and net formal charge under 'Q', computed from RDKit's
atom list and RDKit's periodic table.  Returns None for an unparsable string."""
from collections import Counter
from rdkit import Chem, RDLogger

RDLogger.DisableLog("rdApp.*")
_PT = Chem.GetPeriodicTable()


def mol(s):
    try:
        return Chem.MolFromSmiles(s)
    except Exception:
        return None


def comp(s):
    m = mol(s)
    if m is None:
        return None
    c = Counter()
    q = 0
    for a in m.GetAtoms():
        z = a.GetAtomicNum()
        c[_PT.GetElementSymbol(z) if z > 0 else "*"] += 1
        c["H"] += a.GetTotalNumHs()
        q += a.GetFormalCharge()
    out = {k: v for k, v in c.items() if v != 0}
    out["Q"] = q
    return out


def comp_eq(a, b):
    keys = set(a) | set(b)
    return all(a.get(k, 0) == b.get(k, 0) for k in keys)


def sides(rsmi):
    parts = rsmi.split(">>")
    if len(parts) != 2:
        return None
    return parts[0], parts[1]


def balanced(rsmi):
    """True/False, or None when the reaction does not parse"""
    sd = sides(rsmi)
    if sd is None:
        return None
    a, b = comp(sd[0]), comp(sd[1])
    if a is None or b is None:
        return None
    return comp_eq(a, b)


def n_carbon(s):
    c = comp(s)
    return None if c is None else c.get("C", 0)


def canon(s):
    m = mol(s)
    return None if m is None else Chem.MolToSmiles(m)


def canon_multiset(side):
    """multiset (Counter) of canonical component SMILES of a side string"""
    out = Counter()
    if side == "":
        return out
    for p in side.split("."):
        c = canon(p)
        out[c if c is not None else "?" + p] += 1
    return out


def clear_maps(s):
    m = mol(s)
    if m is None:
        return None
    for a in m.GetAtoms():
        a.SetAtomMapNum(0)
    # re-parse: atom maps can make otherwise equivalent ring positions look different to the stereo perception
    return canon(Chem.MolToSmiles(m))
