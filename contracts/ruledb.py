"""Contracts for synrbl/SynRuleImputer/rule_data_manager.py (C19): the database invariant is inductive over
add_entry / add_entries / remove_entry, so it holds after every sequence of edits."""
from pyvc.vtypes import *  # noqa

F = "synrbl/SynRuleImputer/rule_data_manager.py"
ENTRY = Obj("Entry")
DB = List(ENTRY)

COMP_OK = ("('Q' in {e}['Composition'] and {e}['Composition']['Q'] == get0(DEC({e}['smiles']), 'Q') and "
           "forall(STR, lambda k: implies(k != 'Q', get0({e}['Composition'], k) == get0(DEC({e}['smiles']), k) and "
           "(k in {e}['Composition']) == (k in DEC({e}['smiles'])))))")


def inv(db):
    return [
        # every recorded composition (with explicit charge) is the composition of the entry's SMILES
        "forall(range(0, len({db})), lambda j: allocated({db}[j]) and ".format(db=db) + COMP_OK.format(e=db + "[j]") + ")",
        # no two entries share a formula or a SMILES
        "forall(range(0, len({db})), lambda a: forall(range(0, len({db})), lambda b: implies(a != b, "
        "{db}[a]['formula'] != {db}[b]['formula'] and {db}[a]['smiles'] != {db}[b]['smiles'])))".format(db=db),
        "forall(range(0, len({db})), lambda a: forall(range(0, len({db})), lambda b: implies(a != b, not ({db}[a] is {db}[b]))))".format(db=db),
    ]


def register(reg):
    reg.record("Entry", {"formula": STR, "smiles": STR, "Composition": COMP})
    reg.classdecl("RuleImputeManager", {"database": DB})
    reg.specfun("DEC", [STR], Ty("map", STR, INT), value_of="RSMIDecomposer.decompose")   # value of RSMIDecomposer.decompose
    reg.specfun("VALID", [STR], BOOL)                # RDKit parses the SMILES
    import z3 as _z3
    from pyvc.state import Unsupported
    reg.classdecl("RdkMol", {})

    @reg.external("Chem.MolFromSmiles")
    def _mol_from_smiles(eng, st, ctx, args, kw, node):
        """RDKit's parser: None unless the string is a valid molecule.  VALID(s) is validity *with* sanitisation (what decompose relies
        on); a call that switches sanitisation off is a different, weaker test"""
        s_ = eng.coerce(args[0], STR, st)
        pred = "VALID"
        if "sanitize" in kw:
            if not (_z3.is_false(kw["sanitize"].t) or _z3.is_true(kw["sanitize"].t)):
                raise Unsupported("MolFromSmiles with a non-constant sanitize flag")
            if _z3.is_false(kw["sanitize"].t):
                pred = "PARSES_UNSANITIZED"
        ok = eng.uf(pred, [S], B)(s_.t)
        r = eng.uf("MOLOF", [S], I)(s_.t)
        st.assume(_z3.And(0 <= r, r < st.alloc))
        return SV(Obj("RdkMol"), r, none=_z3.Not(ok))

    reg.contract(F, "RuleImputeManager.is_valid_smiles", params={"smiles": STR}, returns=BOOL, pure=True,
                 ensures=["result == VALID(smiles)"], props=["C19"])
    reg.contract("synrbl/SynProcessor/rsmi_decomposer.py", "RSMIDecomposer.decompose", params={"smiles": STR}, returns=COMP,
                 fresh_result=True, assumed=True,
                 ensures=["same_map(result, DEC(smiles))"],
                 note="decompose is covered by C07 (bounded against the RDKit oracle); here only that it returns a fresh dictionary holding its value",
                 props=["C19"])
    reg.contract("synrbl/SynProcessor/rsmi_decomposer.py", "RuleImputeManager.decompose", params={"smiles": STR}, returns=COMP,
                 fresh_result=True, assumed=True, ensures=["same_map(result, DEC(smiles))"],
                 note="inherited RSMIDecomposer.decompose (see above)", props=["C19"])
    D = "self.database"
    DUP = ("(exists(range(0, old(len(self.database))), lambda j: old(self.database[j]['formula']) == formula) or "
           "exists(range(0, old(len(self.database))), lambda j: old(self.database[j]['smiles']) == smiles) or not VALID(smiles))")
    UNCHANGED = ("len(self.database) == old(len(self.database)) and self.database is old(self.database) and "
                 "forall(range(0, len(self.database)), lambda j: self.database[j] is old(self.database[j]))")
    reg.contract(
        F, "RuleImputeManager.add_entry",
        params={"self": Obj("RuleImputeManager"), "formula": STR, "smiles": STR},
        requires=inv(D),
        raises={"ValueError": DUP},
        ensures_exc={"ValueError": [UNCHANGED] + inv(D)},
        ensures=[
            "not " + DUP,   # accepted only when neither a duplicate nor invalid
            "self.database is old(self.database) and len(self.database) == old(len(self.database)) + 1",
            "forall(range(0, old(len(self.database))), lambda j: self.database[j] is old(self.database[j]))",
            "let(self.database[len(self.database) - 1], lambda e: fresh(e) and e['formula'] == formula and e['smiles'] == smiles and " + COMP_OK.format(e="e") + ")",
        ] + inv(D),
        modifies=["self.database"],
        props=["C19"])
    reg.contract(
        F, "RuleImputeManager.remove_entry",
        params={"self": Obj("RuleImputeManager"), "formula": STR},
        requires=inv(D),
        ensures=[
            "self.database is old(self.database)",
            # a removal deletes exactly the entry with that formula (if any); every other entry stays, in order
            "implies(not exists(range(0, old(len(self.database))), lambda j: old(self.database[j]['formula']) == formula), " + UNCHANGED + ")",
            "implies(exists(range(0, old(len(self.database))), lambda j: old(self.database[j]['formula']) == formula), "
            "len(self.database) == old(len(self.database)) - 1 and "
            "forall(range(0, len(self.database)), lambda j: self.database[j]['formula'] != formula) and "
            "forall(range(0, old(len(self.database))), lambda i: implies(old(self.database[i]['formula']) != formula, "
            "(i < len(self.database) and self.database[i] is old(self.database[i])) or (i >= 1 and self.database[i - 1] is old(self.database[i])))))",
        ] + inv(D),
        modifies=["self.database"],
        props=["C19"])
    reg.contract(
        F, "RuleImputeManager.add_entries",
        params={"self": Obj("RuleImputeManager"), "entries": List(Obj("NewEntry"))}, returns=List(Obj("NewEntry")), fresh_result=True,
        requires=inv(D),
        ensures=["self.database is old(self.database) and len(self.database) >= old(len(self.database))",
                 "forall(range(0, old(len(self.database))), lambda j: self.database[j] is old(self.database[j]))",
                 # every entry is either added or reported back
                 "len(result) + (len(self.database) - old(len(self.database))) == len(entries)",
                 "forall(range(0, len(result)), lambda j: in_list(result[j], entries))"] + inv(D),
        modifies=["self.database"],
        loops={0: {"inv": ["self.database is old(self.database) and len(self.database) >= old(len(self.database))",
                           "forall(range(0, old(len(self.database))), lambda j: self.database[j] is old(self.database[j]))",
                           "len(invalid_entries) + (len(self.database) - old(len(self.database))) == _i and fresh(invalid_entries)",
                           "forall(range(0, len(invalid_entries)), lambda j: in_list(invalid_entries[j], entries))"] + inv(D)}},
        locals_types={"invalid_entries": List(Obj("NewEntry"))},
        props=["C19"])
    reg.record("NewEntry", {"formula": STR, "smiles": STR})
