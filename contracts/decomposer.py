"""Contracts for synrbl/SynProcessor/rsmi_decomposer.py: RSMIDecomposer.decompose against an abstract RDKit
molecule (C07, C01, C04).  The RDKit calls are assumed (trusted) externals; what is proved is SynRBL's own
bookkeeping: every atom of the hydrogen-complete molecule is counted exactly once under its table name, the
charge is stored under 'Q' exactly when it is non-zero, no zero count is ever stored."""
import z3
from pyvc.vtypes import *  # noqa
from pyvc.state import fresh_name, Unsupported

F = "synrbl/SynProcessor/rsmi_decomposer.py"
MOL, ATOM = Obj("Mol"), Obj("Atom")


def _table_name(eng, st, atom_ref):
    """NAME(atom): the key under which decompose counts an atom - the class table read from the real source,
    falling back to whatever the source falls back to (RDKit's symbol after the fix)"""
    table = eng.module_consts.get("RSMIDecomposer.atomic_symbols")
    Z = st.arr("O.Atom.Z", z3.ArraySort(I, I))[atom_ref]
    sym = st.arr("O.Atom.sym", z3.ArraySort(I, S))[atom_ref]
    res = sym
    for k, v in reversed(list(table.items())):
        res = z3.If(Z == k, z3.StringVal(v), res)
    return res


def register(reg):
    reg.classdecl("Atom", {"Z": INT, "sym": STR, "q": INT})
    reg.classdecl("Mol", {"atoms": List(ATOM), "charge": INT})
    reg.specfun("VALID", [STR], BOOL)

    @reg.external("Chem.MolFromSmiles")
    def mol_from_smiles(eng, st, ctx, args, kw, node):
        s = eng.coerce(args[0], STR, st)
        f = eng.uf("MOLOF", [S], I)
        valid = eng.uf("VALID", [S], B)
        r = f(s.t)
        st.assume(z3.And(0 <= r, r < st.alloc))
        return SV(MOL, r, none=z3.Not(valid(s.t)))

    @reg.external("Chem.AddHs")
    def add_hs(eng, st, ctx, args, kw, node):
        m = args[0]
        if m.ty != MOL:
            raise Unsupported("AddHs on %r" % m.ty)
        f = eng.uf("ADDHS", [I], I)
        r = f(m.t)
        st.assume(z3.And(0 <= r, r < st.alloc))
        atoms = st.field("Mol", "atoms", List(ATOM), r)
        st.assume(z3.And(0 <= atoms, atoms < st.alloc))
        return SV(MOL, r)

    @reg.external("Chem.GetFormalCharge")
    def formal_charge(eng, st, ctx, args, kw, node):
        m = args[0]
        return mk_int(st.field("Mol", "charge", INT, m.t))

    # methods on the abstract objects
    def m_obj_GetAtoms(self, base, node, st, ctx):
        if base.ty != MOL:
            raise Unsupported("GetAtoms on %r" % base.ty)
        t = st.field("Mol", "atoms", List(ATOM), base.t)
        st.assume(z3.And(0 <= t, t < st.alloc))
        return SV(List(ATOM), t)

    def m_obj_GetAtomicNum(self, base, node, st, ctx):
        return mk_int(st.field("Atom", "Z", INT, base.t))

    def m_obj_GetSymbol(self, base, node, st, ctx):
        return mk_str(st.field("Atom", "sym", STR, base.t))

    reg.methods = getattr(reg, "methods", {})
    reg.methods.update({"m_obj_GetAtoms": m_obj_GetAtoms, "m_obj_GetAtomicNum": m_obj_GetAtomicNum, "m_obj_GetSymbol": m_obj_GetSymbol})

    @reg.specbuiltin("atomcount")
    def atomcount(eng, node, st, ctx):
        """atomcount(atoms, n, sym): number of the first n atoms of the list whose table name is sym
        (uninterpreted CNT with its definition unfolded once at n)"""
        l = eng.ev(node.args[0], st, ctx)
        n = eng.num(eng.ev(node.args[1], st, ctx), st).t
        sym = eng.coerce(eng.ev(node.args[2], st, ctx), STR, st).t
        E = st.list_elems(l.ty, l.t)
        Zs = st.arr("O.Atom.Z", z3.ArraySort(I, I))
        Ss = st.arr("O.Atom.sym", z3.ArraySort(I, S))
        CNT = eng.uf("CNT", [I, z3.ArraySort(I, I), z3.ArraySort(I, I), z3.ArraySort(I, S), S], I)
        c = CNT(n, E, Zs, Ss, sym)
        st.assume(z3.Implies(n <= 0, c == 0))
        st.assume(z3.Implies(n >= 1, c == CNT(n - 1, E, Zs, Ss, sym) + z3.If(_table_name(eng, st, E[n - 1]) == sym, 1, 0)))
        st.assume(c >= 0)
        return mk_int(c)

    @reg.specbuiltin("molof")
    def molof(eng, node, st, ctx):
        s = eng.coerce(eng.ev(node.args[0], st, ctx), STR, st)
        return SV(MOL, eng.uf("MOLOF", [S], I)(s.t))

    @reg.specbuiltin("addhs")
    def addhs(eng, node, st, ctx):
        m = eng.ev(node.args[0], st, ctx)
        return SV(MOL, eng.uf("ADDHS", [I], I)(m.t))

    @reg.specbuiltin("table_name")
    def table_name(eng, node, st, ctx):
        a = eng.ev(node.args[0], st, ctx)
        return mk_str(_table_name(eng, st, a.t))

    ATOMS = "addhs(molof(smiles)).atoms"
    reg.contract(
        F, "RSMIDecomposer.decompose",
        params={"smiles": STR}, returns=COMP, fresh_result=True,
        pure=True,  # a function of the string (RDKit's parser and hydrogen completion are functions of it): DEC in the row contracts
        ensures=[
            "implies(not VALID(smiles), forall(STR, lambda k: not (k in result)))",
            # every atom of the hydrogen-complete molecule is counted exactly once under its name [C07, C01, C04]
            "implies(VALID(smiles), forall(STR, lambda k: implies(k != 'Q', get0(result, k) == atomcount(%s, len(%s), k))))" % (ATOMS, ATOMS),
            # the net charge is stored under 'Q' exactly when it is non-zero.  Domain of the claim: no wildcard atoms
            # (atomic number 0 is accounted under 'Q' and collides with the charge key)
            "implies(VALID(smiles) and forall(range(0, len(%s)), lambda j: table_name(%s[j]) != 'Q'), "
            "get0(result, 'Q') == addhs(molof(smiles)).charge and ('Q' in result) == (addhs(molof(smiles)).charge != 0))" % (ATOMS, ATOMS),
            # no zero count is stored (precondition of compare_dicts)
            "forall(STR, lambda k: implies(k in result, result[k] != 0))",
        ],
        loops={0: {"inv": [
            "forall(STR, lambda k: get0(comp, k) == atomcount(%s, _i, k))" % ATOMS,
            "forall(STR, lambda k: (k in comp) == (get0(comp, k) != 0))",
            "implies(forall(range(0, len(%s)), lambda j: table_name(%s[j]) != 'Q'), not ('Q' in comp))" % (ATOMS, ATOMS),
            "fresh(comp)",
        ]}},
        modifies=[],
        props=["C07", "C01", "C04", "C14"])
