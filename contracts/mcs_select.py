"""Contract for ExtractMCS.get_largest_condition (C10: "among the search conditions tried the retained one has the
largest total number of matched atoms"; "results of different reactions are never mixed up").

View: a condition is a list of records with a field 'mcs_results' (list of SMARTS strings); *conditions is modelled as
a list of such lists.  TOT(patterns) is the value of the atom-count sum computed by
calculate_total_number_atoms_mcs_parallel for one record (RDKit: assumed), NAT(s) the atom count of one pattern.

Proved for every number of conditions and every length: each retained record is the record of some condition c at a
position j at which that condition's total is maximal among all conditions that have a position j; retained records
appear in increasing position order, at most one per position (so no reaction gets another reaction's record)."""
from pyvc.vtypes import *  # noqa

F = "synrbl/SynMCSImputer/SubStructure/extract_common_mcs.py"
REC = Obj("McsRec")
CONDS = List(List(REC))


def register(reg):
    reg.record("McsRec", {"mcs_results": List(STR)})
    reg.classdecl("ExtractMCS", {})
    reg.specfun("TOT", [List(STR)], INT)
    reg.contract(F, "ExtractMCS.get_num_atoms", params={"smiles": STR}, returns=INT, pure=True, assumed=True,
                 ensures=["result >= 0"], note="RDKit: number of atoms of a SMARTS pattern (0 if it does not parse)", props=["C10"])
    reg.contract(F, "ExtractMCS.calculate_total_number_atoms_mcs_parallel",
                 params={"condition": List(REC), "n_jobs": VAL}, returns=List(INT), fresh_result=True, assumed=True,
                 ensures=["len(result) == len(condition)",
                          "forall(range(0, len(condition)), lambda j: result[j] == TOT(condition[j].mcs_results) and result[j] >= 0)"],
                 note="joblib map of the per-record sum of RDKit pattern atom counts: one non-negative total per record, in order",
                 props=["C10"])

    T = "total_atoms_conditions"
    BEST = ("(j < len(conditions[c]) and {X} is conditions[c][j] and forall(range(0, len(conditions)), lambda c2: "
            "implies(j < len(conditions[c2]), TOT(conditions[c2][j].mcs_results) <= TOT(conditions[c][j].mcs_results))))")
    BESTT = ("(j < len(conditions[c]) and {X} is conditions[c][j] and forall(range(0, len(conditions)), lambda c2: "
             "implies(j < len(conditions[c2]), %s[c2][j] <= %s[c][j])))" % (T, T))
    TFACTS = ("len({T}) == len(conditions) and forall(range(0, len(conditions)), lambda c: len({T}[c]) == len(conditions[c]) and "
              "forall(range(0, len(conditions[c])), lambda j: {T}[c][j] == TOT(conditions[c][j].mcs_results) and {T}[c][j] >= 0))").format(T=T)
    reg.contract(
        F, "ExtractMCS.get_largest_condition",
        params={"conditions": CONDS}, returns=List(REC), fresh_result=True,
        raises={"ValueError": "len(conditions) == 0"},
        ensures=[
            # every retained record is a record of some condition at a position where that condition is the largest [C10]
            "forall(range(0, len(result)), lambda k: exists(range(0, len(conditions)), lambda c: exists(INT, lambda j: 0 <= j and "
            + BEST.format(X="result[k]") + ")))",
        ],
        loops={
            0: {"inv": [
                TFACTS,
                "fresh(result) and min_length >= 0 and forall(range(0, len(conditions)), lambda c: min_length <= len(conditions[c]))",
                "old_objects_unchanged('L.tuple_int_int')",
                "forall(range(0, len(result)), lambda k: exists(range(0, len(conditions)), lambda c: exists(range(0, _i), lambda j: "
                + BESTT.format(X="result[k]") + ")))",
            ]},
            1: {"inv": [
                "max_atoms >= 0 and 0 <= idx and idx < min_length",
                "forall(range(0, _i), lambda c: implies(idx < len({T}[c]), {T}[c][idx] <= max_atoms))".format(T=T),
                "forall(range(0, len(tied_conditions)), lambda k: 0 <= tied_conditions[k][0] and tied_conditions[k][0] < _i and "
                "idx < len({T}[tied_conditions[k][0]]) and {T}[tied_conditions[k][0]][idx] == max_atoms)".format(T=T),
                "fresh(tied_conditions)",
                "old_objects_unchanged('L.tuple_int_int')",
            ]},
            2: {"inv": [
                "max_first_smarts_atoms >= 0",
                "winning_condition_idx == -1 or (0 <= winning_condition_idx and winning_condition_idx < len(conditions) and "
                "idx < len({T}[winning_condition_idx]) and {T}[winning_condition_idx][idx] == max_atoms)".format(T=T),
            ]},
        },
        modifies=[],
        locals_types={"result": List(REC), "tied_conditions": List(Tuple(INT, INT))},
        props=["C10", "C06"])
