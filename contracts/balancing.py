"""Contracts for synrbl/balancing.py and synrbl/SynUtils/batching.py (C05, C06, C12, C18)."""
from pyvc.vtypes import *  # noqa

FB = "synrbl/balancing.py"
FT = "synrbl/SynUtils/batching.py"


def register(reg):
    reg.contract(
        FB, "merge_stats",
        params={"stats": Ty("opt", COMP), "new_stats": COMP},
        requires=["implies(not is_none(stats), not (stats is new_stats))"],
        ensures=[
            # key-wise addition over the union of the key sets [C06, C18]
            "implies(not is_none(stats), forall(STR, lambda k: get0(stats, k) == old(get0(stats, k)) + get0(new_stats, k)))",
            "implies(not is_none(stats), forall(STR, lambda k: (k in stats) == (old(k in stats) or k in new_stats)))",
        ],
        modifies=["stats"],
        loops={
            0: {"inv": [
                "forall(STR, lambda k: (k in stats) == old(k in stats))",
                "forall(STR, lambda k: implies(done(k) , get0(stats, k) == old(get0(stats, k)) + get0(new_stats, k)))",
                "forall(STR, lambda k: implies(not done(k), get0(stats, k) == old(get0(stats, k))))",
            ]},
            1: {"inv": [
                "forall(STR, lambda k: implies(old(k in stats), k in stats and get0(stats, k) == old(get0(stats, k)) + get0(new_stats, k)))",
                "forall(STR, lambda k: implies(not old(k in stats) and done(k), k in stats and get0(stats, k) == get0(new_stats, k)))",
                "forall(STR, lambda k: implies(not old(k in stats) and not done(k), not (k in stats)))",
            ]},
        },
        props=["C06", "C18"])

    # ghost model of a Python iterator: the underlying finite sequence and the number of items consumed
    reg.classdecl("Iter", {"seq": List(VAL), "pos": INT})
    reg.classdecl("DataLoader", {"_DataLoader__data": Obj("Iter"), "batch_size": INT, "_DataLoader__iter_stopped": BOOL})
    D = "self._DataLoader__data"
    reg.contract(
        FT, "DataLoader.__next__",
        params={"self": Obj("DataLoader")}, returns=List(VAL), fresh_result=True,
        requires=["0 <= %s.pos and %s.pos <= len(%s.seq)" % (D, D, D), "self.batch_size >= 1",
                  "not (%s.seq is None)" % D],
        raises={"StopIteration": "old(self._DataLoader__iter_stopped)"},
        ensures=[
            "not old(self._DataLoader__iter_stopped)",
            # the batch is the next consecutive slice of the source, in order [C05]
            "len(result) == (self.batch_size if old(len({D}.seq) - {D}.pos) >= self.batch_size else old(len({D}.seq) - {D}.pos))".format(D=D),
            "forall(range(0, len(result)), lambda j: result[j] == old({D}.seq)[old({D}.pos) + j])".format(D=D),
            "{D}.pos == old({D}.pos) + len(result)".format(D=D),
            "{D}.seq is old({D}.seq) and self.batch_size == old(self.batch_size) and {D} is old({D})".format(D=D),
            # a short batch means the source is exhausted and the next call stops the iteration
            "self._DataLoader__iter_stopped == (len(result) < self.batch_size)",
        ],
        ensures_exc={"StopIteration": ["{D}.pos == old({D}.pos)".format(D=D)]},
        modifies=["self", D],
        loops={0: {"inv": [
            "len(return_data) == _i and fresh(return_data)",
            "{D}.pos == old({D}.pos) + _i and {D}.pos <= len({D}.seq)".format(D=D),
            "forall(range(0, _i), lambda j: return_data[j] == old({D}.seq)[old({D}.pos) + j])".format(D=D),
            "not self._DataLoader__iter_stopped",
            "{D}.seq is old({D}.seq) and self.batch_size == old(self.batch_size) and {D} is old({D})".format(D=D),
            "len({D}.seq) == old(len({D}.seq))".format(D=D),
        ]}},
        locals_types={"return_data": List(VAL)},
        props=["C05"])

    # Dataset over a list / Balancer.__convert_to_dataset: one dataset item per input row, in order (first stage of C05)
    reg.classdecl("RowIter", {"seq": List(ROW), "pos": INT})
    reg.classdecl("Dataset", {"_Dataset__data_reader": Obj("RowIter")})
    reg.contract(
        FT, "Dataset.__init__", params={"self": Obj("Dataset"), "source": List(ROW)},
        ensures=["self._Dataset__data_reader.seq is source and self._Dataset__data_reader.pos == 0 and fresh(self._Dataset__data_reader)"],
        modifies=["self"], props=["C05"])
    reg.classdecl("Balancer", {"_Balancer__reaction_col": STR})
    RD = "result._Dataset__data_reader.seq"
    reg.contract(
        FB, "Balancer.__convert_to_dataset", params={"self": Obj("Balancer"), "data": List(VAL)}, returns=Obj("Dataset"), fresh_result=True,
        raises={"ValueError": "exists(range(0, len(data)), lambda j: not is_str(data[j]) and not is_dictref(data[j]))"},
        ensures=[
            # a list of reaction strings and/or row dictionaries becomes a dataset with exactly one item per entry, in order:
            # the dictionary itself, or a new row holding the string under the reaction column [C05]
            "len({RD}) == len(data) and result._Dataset__data_reader.pos == 0".format(RD=RD),
            "forall(range(0, len(data)), lambda j: implies(is_str(data[j]), fresh({RD}[j]) and self._Balancer__reaction_col in {RD}[j] and "
            "{RD}[j][self._Balancer__reaction_col] == data[j] and forall(STR, lambda k: implies(k in {RD}[j], k == self._Balancer__reaction_col))))".format(RD=RD),
            "forall(range(0, len(data)), lambda j: implies(not is_str(data[j]), {RD}[j] is as_row(data[j])))".format(RD=RD),
        ],
        loops={0: {"inv": [
            "fresh(reaction_data) and len(reaction_data) == _i",
            "forall(range(0, _i), lambda j: implies(is_str(data[j]), fresh(reaction_data[j]) and self._Balancer__reaction_col in reaction_data[j] and "
            "reaction_data[j][self._Balancer__reaction_col] == data[j] and forall(STR, lambda k: implies(k in reaction_data[j], k == self._Balancer__reaction_col))))",
            "forall(range(0, _i), lambda j: implies(not is_str(data[j]), reaction_data[j] is as_row(data[j])))",
            "forall(range(0, _i), lambda j: is_str(data[j]) or is_dictref(data[j]))",
        ]}},
        modifies=[],
        locals_types={"reaction_data": List(ROW)},
        props=["C05"])
