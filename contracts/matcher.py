"""Contracts for synrbl/SynRuleImputer/synthetic_rule_matcher.py (C08)."""
from pyvc.vtypes import *  # noqa

F = "synrbl/SynRuleImputer/synthetic_rule_matcher.py"
RULE = Obj("Rule")
SOL = Obj("Sol")
PATH = List(SOL)

# well-formed rule record: what the finite data obligations establish for every shipped record
WF_RULE = ("'Q' in rule['Composition'] and "
           "forall(STR, lambda k: implies(k in rule['Composition'] and k != 'Q', rule['Composition'][k] > 0)) and "
           "exists(STR, lambda k: k in rule['Composition'] and k != 'Q')")


def _ps_terms(eng, st, p):
    """PS(n, E, Sm, Ra, k): sum over the first n entries of the list with element array E of
    Ratio * CompOf(smiles)[k]; Sm / Ra are the field arrays of the solution records"""
    import z3
    AI = z3.ArraySort(z3.IntSort(), z3.IntSort())
    AS = z3.ArraySort(z3.IntSort(), z3.StringSort())
    PS = eng.uf("PS", [z3.IntSort(), AI, AS, AI, z3.StringSort()], z3.IntSort())
    E = st.list_elems(p.ty, p.t)
    Sm = st.arr("O.Sol.smiles", z3.ArraySort(z3.IntSort(), z3.StringSort()))
    Ra = st.arr("O.Sol.Ratio", z3.ArraySort(z3.IntSort(), z3.IntSort()))
    return PS, E, Sm, Ra


def _ps_axioms(eng):
    import z3
    I, S = z3.IntSort(), z3.StringSort()
    AI, AS = z3.ArraySort(I, I), z3.ArraySort(I, S)
    PS = eng.uf("PS", [I, AI, AS, AI, S], I)
    CompOf = eng.uf("CompOf", [S, S], I)
    n, k = z3.Int("n!ps"), z3.String("k!ps")
    E, Sm, Ra = z3.Const("E!ps", AI), z3.Const("Sm!ps", AS), z3.Const("Ra!ps", AI)
    E2, Sm2, Ra2 = z3.Const("E2!ps", AI), z3.Const("Sm2!ps", AS), z3.Const("Ra2!ps", AI)
    j = z3.Int("j!ps")
    return [
        # congruence on the first n entries (derivable from the two above by induction on n; see lemma PS_congruence)
        z3.ForAll([n, E, Sm, Ra, E2, Sm2, Ra2, k],
                  z3.Implies(z3.ForAll([j], z3.Implies(z3.And(0 <= j, j < n),
                                                       z3.And(Sm[E[j]] == Sm2[E2[j]], Ra[E[j]] == Ra2[E2[j]]))),
                             PS(n, E, Sm, Ra, k) == PS(n, E2, Sm2, Ra2, k)),
                  patterns=[z3.MultiPattern(PS(n, E, Sm, Ra, k), PS(n, E2, Sm2, Ra2, k))]),
    ]


def register(reg):
    reg.record("Rule", {"smiles": STR, "Composition": COMP})
    reg.record("Sol", {"smiles": STR, "Ratio": INT})
    reg.specfun("CompOf", [STR, STR], INT)   # CompOf(smiles, element): recorded composition of a database SMILES
    reg.axiom_z3("PathSum", _ps_axioms,
                 "PS(n,E,Sm,Ra,k) = sum_{j<n} Ra[E[j]]*CompOf(Sm[E[j]],k): unfolded once per mention; "
                 "axiom: PS depends only on the first n entries (congruence)")

    @reg.specbuiltin("pathsum")
    def pathsum(eng, node, st, ctx):
        p = eng.ev(node.args[0], st, ctx)
        k = eng.ev(node.args[1], st, ctx)
        import z3
        PS, E, Sm, Ra = _ps_terms(eng, st, p)
        n = st.list_len(p.ty, p.t)
        CompOf = eng.uf("CompOf", [z3.StringSort(), z3.StringSort()], z3.IntSort())
        # definition of the sum, unfolded once at the list's own length (no recursive axiom: no matching loop)
        st.assume(z3.Implies(n <= 0, PS(n, E, Sm, Ra, k.t) == 0))
        st.assume(z3.Implies(n >= 1, PS(n, E, Sm, Ra, k.t) ==
                             PS(n - 1, E, Sm, Ra, k.t) + Ra[E[n - 1]] * CompOf(Sm[E[n - 1]], k.t)))
        return mk_int(PS(n, E, Sm, Ra, k.t))

    reg.classdecl("SyntheticRuleMatcher", {"rule_dict": List(RULE), "data_dict": COMP, "select": STR,
                                            "all_solutions": List(PATH), "ranking": VAL})
    reg.contract(
        F, "SyntheticRuleMatcher.can_match",
        params={"rule": COMP, "data": COMP}, returns=BOOL, pure=True,
        # only soundness of a positive answer is needed by C08 (completeness of the search is not claimed)
        ensures=["implies(result, forall(STR, lambda k: implies(k in rule and k != 'Q', k in data and data[k] >= rule[k])))"],
        props=["C08"])

    reg.contract(
        F, "SyntheticRuleMatcher.exit_strategy_solution",
        params={"data": COMP}, returns=BOOL, pure=True,
        requires=["'Q' in data"],   # established by SyntheticRuleMatcher.__init__ and kept by apply_rule
        ensures=[
            # accepted  <=>  nothing but a zero charge entry is left
            "implies('Q' in data, result == (forall(STR, lambda k: (k in data) == (k == 'Q')) and data['Q'] == 0))",
            "implies(result, forall(STR, lambda k: implies(k != 'Q', not (k in data))) and get0(data, 'Q') == 0)",
            "implies(result and forall(STR, lambda k: implies(k in data and k != 'Q', data[k] != 0)), forall(STR, lambda k: get0(data, k) == 0))",
        ],
        props=["C08"])

    ratio = "result[1][len(result[1]) - 1]['Ratio']"
    reg.contract(
        F, "SyntheticRuleMatcher.apply_rule",
        params={"self": Obj("SyntheticRuleMatcher"), "data": COMP, "path": PATH, "rule": RULE},
        returns=Tuple(Ty("opt", COMP), Ty("opt", PATH)),
        requires=[WF_RULE, "'Q' in data",
                  "forall(STR, lambda k: implies(k in data and k != 'Q', data[k] != 0))",
                  "forall(range(0, len(path)), lambda j: allocated(path[j]))"],
        ensures=[
            "is_none(result[0]) == is_none(result[1])",
            # applied only when the rule fits
            "implies(not is_none(result[0]), forall(STR, lambda k: implies(k in rule['Composition'] and k != 'Q', k in data and data[k] >= rule['Composition'][k])))",
            # otherwise: one entry appended, positive multiplicity, exact subtraction on every key incl. Q
            "implies(not is_none(result[0]), len(result[1]) == len(path) + 1)",
            "implies(not is_none(result[0]), forall(range(0, len(path)), lambda j: result[1][j] is path[j]))",
            "implies(not is_none(result[0]), result[1][len(path)]['smiles'] == rule['smiles'])",
            "implies(not is_none(result[0]), %s >= 1)" % ratio,
            "implies(not is_none(result[0]), forall(STR, lambda k: get0(result[0], k) == get0(data, k) - %s * get0(rule['Composition'], k)))" % ratio,
            "implies(not is_none(result[0]), 'Q' in result[0])",
            "implies(not is_none(result[0]), forall(STR, lambda k: implies(k in result[0] and k != 'Q', result[0][k] != 0)))",
            "implies(not is_none(result[0]), fresh(result[0]) and fresh(result[1]) and fresh(result[1][len(path)]))",
            # the path sum grows by ratio x recorded composition of the rule's SMILES
            "implies(not is_none(result[0]), forall(STR, lambda k: pathsum(result[1], k) == pathsum(path, k) + result[1][len(result[1]) - 1]['Ratio'] * CompOf(rule['smiles'], k)))",
        ],
        loops={0: {"inv": [
            "forall(STR, lambda k: implies(done(k) and k in data, get0(new_data, k) == data[k] - rule['Composition'][k] * ratio))",
            "forall(STR, lambda k: implies(not done(k), (k in new_data) == (k in data) and get0(new_data, k) == get0(data, k)))",
            "forall(STR, lambda k: implies(k in new_data, k in data))",
            "'Q' in new_data",
            "forall(STR, lambda k: implies(done(k) and k != 'Q' and k in new_data, get0(new_data, k) != 0))",
            "ratio >= 1",
            "fresh(new_data)",
        ]}},
        props=["C08"])

    WF_DB = ("forall(self.rule_dict, lambda rule: " + WF_RULE + " and "
             "forall(STR, lambda k: get0(rule['Composition'], k) == CompOf(rule['smiles'], k)))")
    GOOD = ("(forall(STR, lambda k: pathsum({p}, k) == get0(self.data_dict, k)) and "
            "forall(range(0, len({p})), lambda j: {p}[j]['Ratio'] >= 1 and "
            "exists(self.rule_dict, lambda rule: rule['smiles'] == {p}[j]['smiles'])))")
    PARTIAL = ("forall(range(0, len({p})), lambda j: allocated({p}[j]) and {p}[j]['Ratio'] >= 1 and "
               "exists(self.rule_dict, lambda rule: rule['smiles'] == {p}[j]['smiles']))")
    KEEP = ("len(self.all_solutions) >= old(len(self.all_solutions)) and "
            "forall(range(0, old(len(self.all_solutions))), lambda j: self.all_solutions[j] is old(self.all_solutions[j]))")
    NEW_GOOD = ("forall(range(old(len(self.all_solutions)), len(self.all_solutions)), lambda i: "
                + GOOD.format(p="self.all_solutions[i]") + ")")
    reg.contract(
        F, "SyntheticRuleMatcher.dfs",
        params={"self": Obj("SyntheticRuleMatcher"), "data": COMP, "path": PATH},
        returns=Ty("opt", PATH),
        requires=[WF_DB, "'Q' in data",
                  "forall(STR, lambda k: implies(k in data and k != 'Q', data[k] != 0))",
                  "forall(STR, lambda k: get0(data, k) + pathsum(path, k) == get0(self.data_dict, k))",
                  PARTIAL.format(p="path")],
        ensures=[
            KEEP, NEW_GOOD,
            "self.rule_dict is old(self.rule_dict) and self.data_dict is old(self.data_dict) and self.select == old(self.select)",
            "implies(self.select == 'all', is_none(result))",
            "implies(not is_none(result), " + GOOD.format(p="result") + ")",
        ],
        modifies=["self.all_solutions"],
        loops={0: {"inv": [KEEP, NEW_GOOD]}},
        props=["C08"])

    SUB = "forall(range(0, len(result)), lambda j: exists(range(0, len(solutions)), lambda i: result[j] is solutions[i]))"
    reg.contract(
        F, "SyntheticRuleMatcher.remove_overlapping_solutions",
        params={"solutions": List(PATH)}, returns=List(PATH), fresh_result=True,
        # the de-duplication keeps a sub-list of the completions, in their order (the frozenset keys are read as value sets)
        ensures=["forall(range(0, len(result)), lambda j: in_list(result[j], solutions))", SUB, "len(result) <= len(solutions)"],
        loops={0: {"inv": [
            "fresh(unique_solutions) and len(unique_solutions) <= _i",
            "forall(range(0, len(unique_solutions)), lambda j: exists(range(0, _i), lambda i: unique_solutions[j] is solutions[i]))",
        ]}},
        modifies=[],
        locals_types={"unique_solutions": List(PATH), "seen": SetT(SetT(Tuple(STR, INT)))},
        props=["C08"])
    reg.contract(
        "synrbl/SynUtils/data_utils.py", "find_shortest_sublists",
        params={"solution": List(PATH)}, returns=List(PATH), fresh_result=True,
        ensures=[
            "forall(range(0, len(result)), lambda j: in_list(result[j], solution))",
            "forall(range(0, len(result)), lambda j: exists(range(0, len(solution)), lambda i: result[j] is solution[i]))",
            # exactly the entries of minimal length are kept
            "forall(range(0, len(result)), lambda j: forall(range(0, len(solution)), lambda i: len(result[j]) <= len(solution[i])))",
            "forall(range(0, len(solution)), lambda i: implies(forall(range(0, len(solution)), lambda i2: len(solution[i]) <= len(solution[i2])), "
            "exists(range(0, len(result)), lambda j: result[j] is solution[i])))",
        ],
        modifies=[], props=["C08"])
    reg.contract(
        F, "SyntheticRuleMatcher.rank_solutions",
        params={"solutions": List(PATH), "ranking": VAL}, returns=List(PATH),
        # every ranking mode returns a re-ordered sub-list of the completions it was given (sorted() is read as "same members")
        ensures=["forall(range(0, len(result)), lambda j: in_list(result[j], solutions))", SUB],
        note="sorted(): same members, order unspecified; the key functions (len sums, calculate_net_charge) are not evaluated - assumed not to raise",
        modifies=[], props=["C08"])
    reg.contract(
        F, "SyntheticRuleMatcher.match",
        params={"self": Obj("SyntheticRuleMatcher")}, returns=List(PATH),
        requires=[WF_DB, "'Q' in self.data_dict",
                  "forall(STR, lambda k: implies(k in self.data_dict and k != 'Q', self.data_dict[k] != 0))",
                  "implies(self.select == 'all', len(self.all_solutions) == 0)"],
        ensures=["forall(range(0, len(result)), lambda i: " + GOOD.format(p="result[i]") + ")",
                 "self.rule_dict is old(self.rule_dict) and self.data_dict is old(self.data_dict)"],
        modifies=["self", "old(self.all_solutions)"],
        props=["C08"])

    # the constructor: the imbalance the matcher works on is the imbalance it was given (zero entries dropped,
    # an explicit zero charge added) and the rule list is a re-ordering of the database [C08]
    reg.contract(
        F, "SyntheticRuleMatcher.__init__",
        params={"self": Obj("SyntheticRuleMatcher"), "rule_dict": List(RULE), "data_dict": COMP, "select": STR, "ranking": VAL},
        ensures=[
            "forall(STR, lambda k: get0(self.data_dict, k) == old(get0(data_dict, k)))",
            "'Q' in self.data_dict and forall(STR, lambda k: implies(k in self.data_dict and k != 'Q', self.data_dict[k] != 0))",
            "len(self.rule_dict) == len(rule_dict) and forall(range(0, len(self.rule_dict)), lambda j: in_list(self.rule_dict[j], rule_dict))",
            "self.select == select and implies(select == 'all', len(self.all_solutions) == 0)",
            "fresh(self.rule_dict) and fresh(self.data_dict) and implies(select == 'all', fresh(self.all_solutions))",
        ],
        modifies=["self", "data_dict"],
        props=["C08"])
