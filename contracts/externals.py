"""Assumed (trusted) contracts of dependencies used by the row-level code: pandas / numpy / xgboost / joblib."""
import z3
from pyvc.vtypes import *  # noqa
from pyvc.state import fresh_name, Unsupported


def register(reg):
    @reg.external("pd.DataFrame")
    def pd_dataframe(eng, st, ctx, args, kw, node):
        # DataFrame(list of row dicts): one data row per list element, in order (positional alignment)
        return SV(Ty("opaque"), py={"kind": "frame", "src": args[0]})

    @reg.external("self.model.predict_proba")
    def predict_proba(eng, st, ctx, args, kw, node):
        x = args[0]
        if x.ty.kind != "opaque":
            raise Unsupported("predict_proba on %r" % x.ty)
        return SV(Ty("opaque"), py={"kind": "proba", "src": x.py["src"]})

    @reg.external("np.round")
    def np_round(eng, st, ctx, args, kw, node):
        """np.round(model.predict_proba(X)[:, 1], 3): one value in [0,1] per row of X, a function of that row only
        (CONF is an uninterpreted function of the row's content: it cannot depend on anything else, in particular
        not on the threshold)"""
        x = args[0]
        if x.ty.kind != "opaque" or x.py.get("kind") != "proba":
            raise Unsupported("np.round on %r" % x.ty)
        src = x.py["src"]
        if src.ty != List(ROW):
            raise Unsupported("confidence of non-row list")
        n = st.list_len(src.ty, src.t)
        e = st.list_elems(src.ty, src.t)
        dom = st.arr("D.str.val.dom", z3.ArraySort(I, z3.ArraySort(S, B)))
        val = st.arr("D.str.val.val", z3.ArraySort(I, z3.ArraySort(S, Val)))
        CONF = eng.uf("CONF", [z3.ArraySort(S, B), z3.ArraySort(S, Val)], R)
        j = z3.Int(fresh_name("j"))
        r = st.new_ref()
        lty = List(REAL)
        st.set_list(lty, r, n, z3.Lambda([j], CONF(dom[e[j]], val[e[j]])))
        a, v = z3.Const(fresh_name("a"), z3.ArraySort(S, B)), z3.Const(fresh_name("v"), z3.ArraySort(S, Val))
        st.assume(z3.ForAll([a, v], z3.And(CONF(a, v) >= 0, CONF(a, v) <= 1), patterns=[CONF(a, v)]))
        return SV(lty, r)
