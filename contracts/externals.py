"""Assumed (trusted) contracts of dependencies used by the row-level code: pandas / numpy / xgboost / joblib."""
import z3
from pyvc.vtypes import *  # noqa
from pyvc.state import fresh_name, Unsupported


def register(reg):
    @reg.external("pd.DataFrame")
    def pd_dataframe(eng, st, ctx, args, kw, node):
        # DataFrame(list of row dicts): one data row per list element, in order (positional alignment)
        return SV(Ty("opaque"), py={"kind": "frame", "src": args[0]})

    @reg.external("self.model.predict_proba")
    def predict_proba(eng, st, ctx, args, kw, node):
        x = args[0]
        if x.ty.kind != "opaque":
            raise Unsupported("predict_proba on %r" % x.ty)
        return SV(Ty("opaque"), py={"kind": "proba", "src": x.py["src"]})

    @reg.external("np.round")
    def np_round(eng, st, ctx, args, kw, node):
        """np.round(model.predict_proba(X)[:, 1], 3): one value in [0,1] per row of X, a function of that row only
        (CONF is an uninterpreted function of the row's content: it cannot depend on anything else, in particular
        not on the threshold)"""
        x = args[0]
        if x.ty.kind != "opaque" or x.py.get("kind") != "proba":
            raise Unsupported("np.round on %r" % x.ty)
        src = x.py["src"]
        if src.ty != List(ROW):
            raise Unsupported("confidence of non-row list")
        n = st.list_len(src.ty, src.t)
        e = st.list_elems(src.ty, src.t)
        dom = st.arr("D.str.val.dom", z3.ArraySort(I, z3.ArraySort(S, B)))
        val = st.arr("D.str.val.val", z3.ArraySort(I, z3.ArraySort(S, Val)))
        CONF = eng.uf("CONF", [z3.ArraySort(S, B), z3.ArraySort(S, Val)], R)
        j = z3.Int(fresh_name("j"))
        r = st.new_ref()
        lty = List(REAL)
        st.set_list(lty, r, n, z3.Lambda([j], CONF(dom[e[j]], val[e[j]])))
        a, v = z3.Const(fresh_name("a"), z3.ArraySort(S, B)), z3.Const(fresh_name("v"), z3.ArraySort(S, Val))
        st.assume(z3.ForAll([a, v], z3.And(CONF(a, v) >= 0, CONF(a, v) <= 1), patterns=[CONF(a, v)]))
        return SV(lty, r)

    @reg.external("copy.deepcopy")
    def deepcopy(eng, st, ctx, args, kw, node):
        """deepcopy of a row (dict str -> value): same keys; scalar values equal; every contained dictionary is a fresh dictionary
        with the same content (contained lists: fresh, content not tracked)"""
        x = args[0]
        if x.ty == List(ROW):
            # a fresh list of fresh rows, one per row and in order, each with the keys and scalar values of its original
            n = st.list_len(x.ty, x.t)
            e = st.list_elems(x.ty, x.t)
            lo = st.alloc
            hi = z3.Int(fresh_name("alloc"))
            st.assume(hi >= lo)
            cpr = z3.Function(fresh_name("dcrow"), I, I)
            j, j2 = z3.Int(fresh_name("j")), z3.Int(fresh_name("j2"))
            st.assume(z3.ForAll([j], z3.Implies(z3.And(0 <= j, j < n), z3.And(lo <= cpr(j), cpr(j) < hi)), patterns=[cpr(j)]))
            st.assume(z3.ForAll([j, j2], z3.Implies(z3.And(0 <= j, j < j2, j2 < n), cpr(j) != cpr(j2))))
            dom = st.arr("D.str.val.dom", z3.ArraySort(I, z3.ArraySort(S, B)))
            val = st.arr("D.str.val.val", z3.ArraySort(I, z3.ArraySort(S, Val)))
            kk = z3.Const(fresh_name("k"), S)
            st.assume(z3.ForAll([j], z3.Implies(z3.And(0 <= j, j < n), dom[cpr(j)] == dom[e[j]]), patterns=[dom[cpr(j)]]))
            st.assume(z3.ForAll([j, kk], z3.Implies(z3.And(0 <= j, j < n, z3.Not(Val.is_VRef(val[e[j]][kk]))), val[cpr(j)][kk] == val[e[j]][kk]),
                                patterns=[val[cpr(j)][kk]]))
            st.assume(z3.ForAll([j, kk], z3.Implies(z3.And(0 <= j, j < n, Val.is_VRef(val[e[j]][kk])),
                                                    z3.And(Val.is_VRef(val[cpr(j)][kk]), lo <= Val.ref(val[cpr(j)][kk]), Val.ref(val[cpr(j)][kk]) < hi)),
                                patterns=[val[cpr(j)][kk]]))
            st.alloc = hi
            r = st.new_ref()
            st.set_list(x.ty, r, n, eng.named_array(st, j, cpr(j), "dclist"))
            return SV(x.ty, r)
        if x.ty != ROW:
            raise Unsupported("deepcopy of %r" % x.ty)
        dom, val = st.dict_dom(ROW, x.t), st.dict_val(ROW, x.t)
        r = st.new_ref()
        nv = z3.Const(fresh_name("dcval"), val.sort())
        cp = z3.Function(fresh_name("dcref"), S, I)
        k, k2 = z3.Const(fresh_name("k"), S), z3.Const(fresh_name("k2"), S)
        lo = st.alloc
        hi = z3.Int(fresh_name("alloc"))
        st.assume(hi >= lo)
        st.assume(z3.ForAll([k], z3.If(Val.is_VRef(val[k]), z3.And(nv[k] == Val.VRef(cp(k)), lo <= cp(k), cp(k) < hi), nv[k] == val[k]),
                            patterns=[nv[k]]))
        st.assume(z3.ForAll([k, k2], z3.Implies(z3.And(k != k2, Val.is_VRef(val[k]), Val.is_VRef(val[k2])), cp(k) != cp(k2))))
        # contained composition dictionaries keep their content
        for name, sort in (("D.str.int.dom", z3.ArraySort(I, z3.ArraySort(S, B))), ("D.str.int.val", z3.ArraySort(I, z3.ArraySort(S, I)))):
            a = st.arr(name, sort)
            st.assume(z3.ForAll([k], z3.Implies(Val.is_VRef(val[k]), a[cp(k)] == a[Val.ref(val[k])]), patterns=[a[cp(k)]]))
        st.alloc = hi
        st.set_dict(ROW, r, dom, nv)
        return SV(ROW, r)
