"""Row-level contracts: update_reactants_and_products, Validator.check, ConfidencePredictor.predict,
MCSBasedMethod.run, MCSSearch.find (C01, C03, C04, C06, C10, C11, C13, C18)."""
from pyvc.vtypes import *  # noqa

ROWS = List(ROW)

# every row of the list is unchanged except for the listed keys
def only_keys(rows, keys):
    cond = " and ".join("k != %s" % k for k in keys)
    return ("forall(range(0, len({r})), lambda j: forall(STR, lambda k: implies({c}, "
            "({r}[j][k] == old({r}[j][k])) and ((k in {r}[j]) == old(k in {r}[j])))))").format(r=rows, c=cond)


OTHERS_UNCHANGED = ("forall(ROW, lambda r: implies(allocated_before(r) and not exists(range(0, len({r})), lambda j: {r}[j] is r), "
                    "same_map(r, old(mapof(r)))))")


def register(reg):
    F = "synrbl/SynUtils/common.py"
    reg.contract(
        F, "update_reactants_and_products",
        params={"reactions": ROWS, "reaction_col": STR, "reactants_col": STR, "products_col": STR, "symbol": STR},
        requires=[
            "distinct_rows(reactions)",
            "reaction_col != reactants_col and reaction_col != products_col and reactants_col != products_col",
            "forall(range(0, len(reactions)), lambda j: reaction_col in reactions[j] and is_str(reactions[j][reaction_col])"
            " and split_len(as_str(reactions[j][reaction_col]), symbol) >= 2)",
        ],
        ensures=[
            "forall(range(0, len(reactions)), lambda j: reactants_col in reactions[j] and products_col in reactions[j]"
            " and reactions[j][reactants_col] == split_at(as_str(old(reactions[j][reaction_col])), symbol, 0)"
            " and reactions[j][products_col] == split_at(as_str(old(reactions[j][reaction_col])), symbol, 1))",
            only_keys("reactions", ["reactants_col", "products_col"]),
            "len(reactions) == old(len(reactions))",
        ],
        modifies=["each(reactions)"],
        loops={0: {"inv": [
            "forall(range(0, _i), lambda j: reactants_col in reactions[j] and products_col in reactions[j]"
            " and reactions[j][reactants_col] == split_at(as_str(old(reactions[j][reaction_col])), symbol, 0)"
            " and reactions[j][products_col] == split_at(as_str(old(reactions[j][reaction_col])), symbol, 1))",
            "forall(range(0, len(reactions)), lambda j: forall(STR, lambda k: implies(k != reactants_col and k != products_col, "
            "(reactions[j][k] == old(reactions[j][k])) and ((k in reactions[j]) == old(k in reactions[j])))))",
            "forall(range(_i, len(reactions)), lambda j: same_map(reactions[j], old(mapof(reactions[j]))))",
            "forall(ROW, lambda r: implies(not in_list(r, reactions), same_map(r, old(mapof(r)))))",
        ]}},
        props=["C01", "C03", "C04", "C10"])

    # ------------------------------------------------------------------------------------------------
    # Validator.check
    FD = "synrbl/SynProcessor/rsmi_decomposer.py"
    FC = "synrbl/SynProcessor/rsmi_comparator.py"
    FK = "synrbl/SynProcessor/check_carbon_balance.py"
    FP = "synrbl/postprocess.py"
    # DEC / CMPD are the value functions of the (pure, proved) RSMIDecomposer.decompose and RSMIComparator.compare_dicts
    reg.specfun("DEC", [STR], Ty("map", STR, INT), value_of="RSMIDecomposer.decompose")
    reg.specfun("CMPD", [COMP, COMP], STR, value_of="RSMIComparator.compare_dicts")
    reg.specfun("CLABEL", [STR], STR)                  # carbon label of a reaction string ('>>', atom 'C')
    reg.classdecl("RSMIDecomposer", {"smiles": VAL, "data": ROWS, "reactant_col": STR, "product_col": STR,
                                     "parallel": BOOL, "n_jobs": VAL, "verbose": VAL})
    reg.classdecl("RSMIComparator", {"reactants": List(COMP), "products": List(COMP), "n_jobs": VAL, "verbose": VAL})
    reg.classdecl("CheckCarbonBalance", {"reactions_data": ROWS, "rsmi_col": STR, "symbol": STR, "atom_type": STR,
                                         "n_jobs": VAL, "smiles_cache": Dict(STR, INT)})
    reg.classdecl("Validator", {"reaction_col": STR, "method": STR, "solved_col": STR, "solved_method_col": STR,
                                "unbalance_col": STR, "check_carbon_balance": BOOL, "carbon_balance_col": STR,
                                "issue_col": STR, "n_jobs": VAL})
    reg.contract(FD, "RSMIDecomposer.__init__",
                 params={"self": Obj("RSMIDecomposer"), "smiles": VAL, "data": ROWS, "reactant_col": STR,
                         "product_col": STR, "parallel": BOOL, "n_jobs": VAL, "verbose": VAL},
                 ensures=["self.data is data and self.reactant_col == reactant_col and self.product_col == product_col"
                          " and self.parallel == parallel"],
                 modifies=["self"], props=["C01", "C03", "C04"])
    reg.contract(FD, "RSMIDecomposer.data_decomposer",
                 params={"self": Obj("RSMIDecomposer")}, returns=Tuple(List(COMP), List(COMP)), fresh_result=True,
                 requires=["forall(range(0, len(self.data)), lambda j: self.reactant_col in self.data[j] and self.product_col in self.data[j])"],
                 ensures=["len(result[0]) == len(self.data) and len(result[1]) == len(self.data)",
                          "forall(range(0, len(self.data)), lambda j: same_map(result[0][j], DEC(as_str(self.data[j][self.reactant_col])))"
                          " and same_map(result[1][j], DEC(as_str(self.data[j][self.product_col]))))",
                          # no zero count is stored (precondition of compare_dicts)
                          "forall(range(0, len(self.data)), lambda j: forall(STR, lambda k: implies(k in result[0][j], result[0][j][k] != 0)))",
                          "forall(range(0, len(self.data)), lambda j: forall(STR, lambda k: implies(k in result[1][j], result[1][j][k] != 0)))"],
                 note="proved from the contract of decompose; joblib.Parallel is read as an order-preserving map",
                 props=["C01", "C03", "C04", "C07", "C14"])
    reg.contract(FC, "RSMIComparator.__init__",
                 params={"self": Obj("RSMIComparator"), "reactants": List(COMP), "products": List(COMP), "n_jobs": VAL, "verbose": VAL},
                 ensures=["self.reactants is reactants and self.products is products"],
                 modifies=["self"], props=["C01", "C03", "C04"])
    reg.contract(FC, "RSMIComparator.run_parallel",
                 params={"self": Obj("RSMIComparator"), "reactants": List(COMP), "products": List(COMP)},
                 returns=Tuple(List(STR), List(COMP)), fresh_result=True,
                 requires=["forall(range(0, len(reactants)), lambda j: forall(STR, lambda k: implies(k in reactants[j], reactants[j][k] != 0)))",
                           "forall(range(0, len(products)), lambda j: forall(STR, lambda k: implies(k in products[j], products[j][k] != 0)))"],
                 ensures=["len(result[0]) == (len(reactants) if len(reactants) <= len(products) else len(products))",
                          "forall(range(0, len(result[0])), lambda j: result[0][j] == CMPD(reactants[j], products[j]))"],
                 note="proved from the contracts of compare_dicts / diff_dicts; joblib.Parallel is read as an order-preserving map",
                 props=["C01", "C03", "C04", "C07", "C14"])
    reg.contract(FK, "CheckCarbonBalance.__init__",
                 params={"self": Obj("CheckCarbonBalance"), "reactions_data": ROWS, "rsmi_col": STR, "symbol": STR,
                         "atom_type": STR, "n_jobs": VAL},
                 ensures=["self.reactions_data is reactions_data and self.rsmi_col == rsmi_col and self.symbol == symbol"
                          " and self.atom_type == atom_type"],
                 modifies=["self"], props=["C01", "C03", "C04"])
    # count_atoms: RDKit parse + atom loop with a memo dictionary (assumed: a function of the string and the atom type; the
    # memo dictionary is outside the model, i.e. it is assumed to hold only values of this function)
    reg.specfun("BADSMI", [STR], BOOL)
    reg.contract(FK, "CheckCarbonBalance.count_atoms", params={"smiles": STR, "atom_type": STR}, returns=INT, pure=True, assumed=True,
                 raises={"InvalidSmilesException": "BADSMI(smiles)"},
                 ensures=["result >= 0"],
                 note="number of atoms of the given symbol in the RDKit molecule of the string (0 if it does not parse); a function of its "
                      "string arguments - the memo dictionary only stores values of this function",
                 props=["C03", "C04", "C14"])
    LBL = "as_str(result['carbon_balance_check'])"
    RX = "as_str(reaction[rsmi_col])"
    NCSUM = "sum(F('CheckCarbonBalance.count_atoms', t, atom_type) for t in split_at({RX}, symbol, %d).split('.'))".format(RX=RX)
    SHAPE_OK = "(rsmi_col in reaction and split_len({RX}, symbol) == 2)".format(RX=RX)
    reg.contract(
        FK, "CheckCarbonBalance.process_reaction",
        params={"reaction": ROW, "rsmi_col": STR, "symbol": STR, "atom_type": STR}, returns=ROW, fresh_result=True, pure=True,
        requires=["implies(rsmi_col in reaction, is_str(reaction[rsmi_col]))"],
        ensures=[
            # a copy of the row with one more column
            "forall(STR, lambda k: implies(k != 'carbon_balance_check', (k in result) == (k in reaction) and result[k] == reaction[k]))",
            "'carbon_balance_check' in result and is_str(result['carbon_balance_check'])",
            "{L} == 'balanced' or {L} == 'products' or {L} == 'reactants' or {L} == 'error'".format(L=LBL),
            # the label compares the carbon totals of the two sides, molecule by molecule (every occurrence counted) [C03, C14]
            "implies({L} != 'error', {OK})".format(L=LBL, OK=SHAPE_OK),
            "implies({L} == 'balanced', {A} == {B})".format(L=LBL, A=NCSUM % 0, B=NCSUM % 1),
            "implies({L} == 'products', {A} > {B})".format(L=LBL, A=NCSUM % 0, B=NCSUM % 1),
            "implies({L} == 'reactants', {A} < {B})".format(L=LBL, A=NCSUM % 0, B=NCSUM % 1),
        ],
        locals_types={"new_reaction": ROW},
        props=["C03", "C04", "C14"])
    def _label_functional(eng):
        import z3
        from pyvc.vtypes import Val, S, B
        dom = z3.Const("lf_dom", z3.ArraySort(S, B))
        val = z3.Const("lf_val", z3.ArraySort(S, Val))
        col = z3.Const("lf_col", S)
        sorts = [z3.ArraySort(S, B), z3.ArraySort(S, Val), S, S, S]
        fval = eng.uf("F_CheckCarbonBalance_process_reaction_val", sorts, z3.ArraySort(S, Val))
        cl = eng.uf("CLABEL", [S], S)
        app = fval(dom, val, col, z3.StringVal(">>"), z3.StringVal("C"))
        return [z3.ForAll([dom, val, col], app[z3.StringVal("carbon_balance_check")] == Val.VStr(cl(Val.s(val[col]))), patterns=[app])]
    reg.axiom_z3("carbon-label-functional", _label_functional,
                 "CLABEL(r) names the 'carbon_balance_check' value process_reaction computes for a row whose reaction string is r (symbol '>>', atom "
                 "'C'): the label is a function of that string alone, because process_reaction reads its row only through row[rsmi_col] "
                 "(read-set of the function body checked syntactically on every run: obligation frame:process_reaction-reads)",
                 only=["CheckCarbonBalance.check_carbon_balance"])
    reg.contract(FK, "CheckCarbonBalance.check_carbon_balance",
                 params={"self": Obj("CheckCarbonBalance")}, returns=ROWS, fresh_result=True,
                 requires=["self.symbol == '>>' and self.atom_type == 'C'",
                           "forall(range(0, len(self.reactions_data)), lambda j: implies(self.rsmi_col in self.reactions_data[j], "
                           "is_str(self.reactions_data[j][self.rsmi_col])))"],
                 ensures=["len(result) == len(self.reactions_data)",
                          "forall(range(0, len(result)), lambda j: fresh(result[j]) and 'carbon_balance_check' in result[j] and "
                          "result[j]['carbon_balance_check'] == CLABEL(as_str(self.reactions_data[j][self.rsmi_col])))"],
                 note="proved from the contract of process_reaction; joblib.Parallel is read as an order-preserving map",
                 props=["C01", "C03", "C04", "C14"])

    V = "self"
    COLS = ["self.reaction_col", "self.solved_col", "self.solved_method_col", "self.unbalance_col",
            "self.carbon_balance_col", "self.issue_col", "'reactants'", "'products'", "'input_reaction'"]
    distinct = " and ".join("%s != %s" % (a, b) for i, a in enumerate(COLS) for b in COLS[i + 1:])
    R = "reactions[j]"
    CMP = "CMPD(DEC(split_at(as_str(old({R}[self.reaction_col])), '>>', 0)), DEC(split_at(as_str(old({R}[self.reaction_col])), '>>', 1)))".format(R=R)
    LABEL = "(CLABEL(as_str(old({R}[self.reaction_col]))) if self.check_carbon_balance else old({R}[self.carbon_balance_col]))".format(R=R)
    NEWLY = "(not truthy(old({R}[self.solved_col])) and {CMP} == 'Balance' and {LABEL} == 'balanced')".format(R=R, CMP=CMP, LABEL=LABEL)
    SOLVED = "(truthy(old({R}[self.solved_col])) or {NEWLY})".format(R=R, NEWLY=NEWLY)
    POST = [
        # a row becomes solved exactly when the comparison says Balance and the carbon label says balanced [C01, C04]
        "truthy({R}[self.solved_col]) == {SOLVED}".format(R=R, SOLVED=SOLVED),
        "implies({NEWLY}, {R}[self.solved_col] == True and {R}[self.solved_method_col] == self.method)".format(R=R, NEWLY=NEWLY),
        "implies(not {NEWLY}, {R}[self.solved_col] == old({R}[self.solved_col]) and {R}[self.solved_method_col] == old({R}[self.solved_method_col])"
        " and (self.solved_method_col in {R}) == old(self.solved_method_col in {R}))".format(R=R, NEWLY=NEWLY),
        # an unsolved row is reverted to its input when asked to; otherwise the reaction is not touched [C03]
        "{R}[self.reaction_col] == (old({R}['input_reaction']) if override_unsolved and not {SOLVED} else old({R}[self.reaction_col]))".format(R=R, SOLVED=SOLVED),
        "{R}[self.issue_col] == (override_issue_msg if override_unsolved and not {SOLVED} and not is_none(override_issue_msg) and old({R}[self.issue_col]) == '' else old({R}[self.issue_col]))".format(R=R, SOLVED=SOLVED),
        "{R}[self.unbalance_col] == {CMP}".format(R=R, CMP=CMP),
        "{R}[self.carbon_balance_col] == {LABEL}".format(R=R, LABEL=LABEL),
        "{R}['input_reaction'] == old({R}['input_reaction'])".format(R=R),
        "self.unbalance_col in {R} and self.solved_col in {R} and self.reaction_col in {R} and 'input_reaction' in {R} and 'reactants' in {R} and 'products' in {R} "
        "and implies(self.check_carbon_balance or old(self.carbon_balance_col in {R}), self.carbon_balance_col in {R}) "
        "and implies(truthy({R}[self.solved_col]) and not truthy(old({R}[self.solved_col])), self.solved_method_col in {R}) "
        "and (self.issue_col in {R}) == old(self.issue_col in {R})".format(R=R),
        # after a pass that reverts unsolved rows the side fields describe the returned reaction [C10]
        "implies(override_unsolved, {R}['reactants'] == split_at(as_str({R}[self.reaction_col]), '>>', 0) and {R}['products'] == split_at(as_str({R}[self.reaction_col]), '>>', 1))".format(R=R),
    ]
    ROWPRE = ("forall(range(0, len(reactions)), lambda j: self.reaction_col in {R} and is_str({R}[self.reaction_col])"
              " and split_len(as_str({R}[self.reaction_col]), '>>') >= 2 and self.solved_col in {R} and 'input_reaction' in {R}"
              " and implies(not self.check_carbon_balance, self.carbon_balance_col in {R})"
              " and implies(override_unsolved and not is_none(override_issue_msg) and not truthy({R}[self.solved_col]), self.issue_col in {R})"
              " and implies(override_unsolved, is_str({R}['input_reaction']) and split_len(as_str({R}['input_reaction']), '>>') >= 2))").format(R=R)
    KEYS = ["self.reaction_col", "self.solved_col", "self.solved_method_col", "self.unbalance_col",
            "self.carbon_balance_col", "self.issue_col", "'reactants'", "'products'"]
    SPLITS = ("forall(range(0, len(reactions)), lambda j: 'reactants' in {R} and 'products' in {R}"
              " and {R}['reactants'] == split_at(as_str(old({R}[self.reaction_col])), '>>', 0)"
              " and {R}['products'] == split_at(as_str(old({R}[self.reaction_col])), '>>', 1))").format(R=R)
    NOT_IN_LIST = ("forall(ROW, lambda r: implies(not in_list(r, reactions), "
                   "same_map(r, old(mapof(r)))))")
    SAME_ROWS = "len(reactions) == old(len(reactions)) and forall(range(0, len(reactions)), lambda j: reactions[j] is old(reactions[j]))"
    INV0 = [
        SAME_ROWS, SPLITS, NOT_IN_LIST,
        "forall(range(0, len(reactions)), lambda j: forall(STR, lambda k: implies(k != 'reactants' and k != 'products' and k != self.carbon_balance_col, "
        "({R}[k] == old({R}[k])) and ((k in {R}) == old(k in {R})))))".format(R=R),
        "forall(range(0, _i), lambda j: self.carbon_balance_col in {R} and {R}[self.carbon_balance_col] == CLABEL(as_str(old({R}[self.reaction_col]))))".format(R=R),
        "forall(range(_i, len(reactions)), lambda j: (self.carbon_balance_col in {R}) == old(self.carbon_balance_col in {R}) and {R}[self.carbon_balance_col] == old({R}[self.carbon_balance_col]))".format(R=R),
    ]
    INV1 = [
        SAME_ROWS, NOT_IN_LIST,
        "forall(range(_i, len(reactions)), lambda j: same_map({R}, at('loop1', mapof({R}))))".format(R=R),
    ] + ["forall(range(0, _i), lambda j: %s)" % p for p in POST[:-1]] + [
        "forall(range(0, _i), lambda j: forall(STR, lambda k: implies(" + " and ".join("k != %s" % k for k in KEYS) + ", "
        "({R}[k] == old({R}[k])) and ((k in {R}) == old(k in {R})))))".format(R=R),
    ]
    reg.contract(
        FP, "Validator.check",
        params={"self": Obj("Validator"), "reactions": ROWS, "override_unsolved": BOOL, "override_issue_msg": Ty("opt", STR)},
        returns=ROWS,
        requires=["distinct_rows(reactions)", distinct, ROWPRE],
        ensures=["result is reactions and len(reactions) == old(len(reactions))",
                 "forall(range(0, len(reactions)), lambda j: reactions[j] is old(reactions[j]))"]
        + ["forall(range(0, len(reactions)), lambda j: %s)" % p for p in POST]
        + [only_keys("reactions", KEYS)],
        modifies=["each(reactions)"],
        loops={0: {"inv": INV0}, 1: {"inv": INV1}},
        shards=8,
        props=["C01", "C03", "C04"])

    # ------------------------------------------------------------------------------------------------
    # ConfidencePredictor.predict
    FA = "synrbl/SynAnalysis/analysis_utils.py"
    FCP = "synrbl/confidence_prediction.py"
    reg.contract(FA, "count_boundary_atoms_products_and_calculate_changes",
                 params={"list_of_dicts": ROWS, "reaction_col": STR, "mcs_col": STR}, returns=ROWS, assumed=True,
                 ensures=["result is list_of_dicts and len(list_of_dicts) == old(len(list_of_dicts))",
                          "forall(range(0, len(list_of_dicts)), lambda j: list_of_dicts[j] is old(list_of_dicts[j]))",
                          only_keys("list_of_dicts", ["'num_boundary'", "'bond_change_merge'", "'ring_change_merge'"]),
                          "forall(range(0, len(list_of_dicts)), lambda j: forall(STR, lambda k: implies(old(k in list_of_dicts[j]), k in list_of_dicts[j])))"],
                 modifies=["each(list_of_dicts)"],
                 note="adds the three feature keys to each row in place and changes nothing else (RDKit descriptors)",
                 props=["C13", "C18"])
    reg.contract(FA, "calculate_chemical_properties",
                 params={"dictionary_list": ROWS}, returns=ROWS, fresh_result=True, assumed=True,
                 requires=["forall(range(0, len(dictionary_list)), lambda j: 'reactants' in dictionary_list[j] and 'products' in dictionary_list[j])"],
                 ensures=["len(result) == len(dictionary_list)",
                          "forall(range(0, len(result)), lambda j: fresh(result[j]))"],
                 note="works on a deep copy; the argument rows are not modified",
                 props=["C13", "C18"])
    reg.classdecl("ConfidencePredictor", {"reaction_col": STR, "input_reaction_col": STR, "confidence_col": STR,
                                          "solved_col": STR, "solved_by_col": STR, "solved_by_method": STR,
                                          "issue_col": STR, "mcs_col": STR})
    PC = ["self.reaction_col", "self.input_reaction_col", "self.confidence_col", "self.solved_col", "self.solved_by_col",
          "self.issue_col", "self.mcs_col", "'reactants'", "'products'", "'num_boundary'", "'bond_change_merge'", "'ring_change_merge'"]
    pdistinct = " and ".join("%s != %s" % (a, b) for i, a in enumerate(PC) for b in PC[i + 1:])
    R = "reactions[j]"
    M = "(old(self.solved_by_col in {R}) and old({R}[self.solved_by_col]) == self.solved_by_method)".format(R=R)
    PKEYS = ["self.confidence_col", "self.solved_col", "self.issue_col", "'reactants'", "'products'", "'num_boundary'",
             "'bond_change_merge'", "'ring_change_merge'"]
    MSG = "'Confidence is below the threshold of {:.2%}.'.format(threshold)"
    PRE_ROWS = ("forall(range(0, len(reactions)), lambda j: implies(self.solved_by_col in {R} and {R}[self.solved_by_col] == self.solved_by_method, "
                "self.input_reaction_col in {R} and is_str({R}[self.input_reaction_col]) and split_len(as_str({R}[self.input_reaction_col]), '>>') >= 2 "
                "and self.issue_col in {R}))").format(R=R)
    PPOST = [
        # rows of other methods and declined rows are not touched at all [C13]
        "implies(not {M}, same_map({R}, old(mapof({R}))))".format(M=M, R=R),
        # scored rows: confidence in [0,1]; solved exactly when confidence >= threshold; issue names the threshold [C13]
        "implies({M}, is_real({R}[self.confidence_col]) and as_real({R}[self.confidence_col]) >= 0 and as_real({R}[self.confidence_col]) <= 1)".format(M=M, R=R),
        "implies({M} and as_real({R}[self.confidence_col]) >= threshold, {R}[self.solved_col] == old({R}[self.solved_col]) and {R}[self.issue_col] == old({R}[self.issue_col]))".format(M=M, R=R),
        "implies({M} and as_real({R}[self.confidence_col]) < threshold, {R}[self.solved_col] == False and {R}[self.issue_col] == {MSG})".format(M=M, R=R, MSG=MSG),
    ]
    PPOST_EXTRA = ["forall(range(0, len(reactions)), lambda j: forall(STR, lambda k: implies(old(k in {R}), k in {R})))".format(R=R),
                   "forall(range(0, len(reactions)), lambda j: implies({M}, self.confidence_col in {R}))".format(M=M, R=R),
                   "forall(range(0, len(reactions)), lambda j: implies({M} and as_real({R}[self.confidence_col]) < threshold, old({R}[self.issue_col]) == ''))".format(M=M, R=R)]
    notk = lambda ks: " and ".join("k != %s" % k for k in ks)  # noqa
    RP = ("(is_real(r[self.confidence_col]) and as_real(r[self.confidence_col]) >= 0 and as_real(r[self.confidence_col]) <= 1 and as_real(r[self.confidence_col]) == confidence[a]"
          " and implies(as_real(r[self.confidence_col]) >= threshold, r[self.solved_col] == old(r[self.solved_col]) and r[self.issue_col] == old(r[self.issue_col]))"
          " and implies(as_real(r[self.confidence_col]) < threshold, r[self.solved_col] == False and r[self.issue_col] == " + MSG + " and old(r[self.issue_col]) == '')"
          " and forall(STR, lambda k: implies(" + notk(PKEYS) + ", r[k] == old(r[k]) and (k in r) == old(k in r))))")
    FK3 = ["'reactants'", "'products'", "'num_boundary'", "'bond_change_merge'", "'ring_change_merge'"]
    RU = ("(forall(STR, lambda k: implies(" + notk(FK3) + ", r[k] == old(r[k]) and (k in r) == old(k in r))))")
    PINV = [
        "len(old(reactions)) == old(len(reactions)) and forall(range(0, len(old(reactions))), lambda j: old(reactions)[j] is old(reactions[j]))",
        # rows that are not scored are untouched
        "forall(range(0, len(old(reactions))), lambda j: let(old(reactions)[j], lambda r: implies(not (old(self.solved_by_col in r) and old(r[self.solved_by_col]) == self.solved_by_method), same_map(r, old(mapof(r))))))",
        "forall(ROW, lambda r: implies(not in_list(r, old(reactions)), same_map(r, old(mapof(r)))))",
        "forall(range(0, _i), lambda a: let(reactions[a], lambda r: " + RP + "))",
        "forall(range(_i, len(reactions)), lambda a: let(reactions[a], lambda r: " + RU + "))",
        "conf_success >= 0 and len(reactions) == len(confidence)",
        # the counter is the number of scored rows so far whose confidence reaches the threshold [C18]
        "conf_success == sumto(_i, (1 for c in confidence if c >= threshold))",
        "forall(range(0, len(old(reactions))), lambda j: let(old(reactions)[j], lambda r: forall(STR, lambda k: implies(old(k in r), k in r))))",
        # the scored list is a sub-list of the argument: exactly its rows attributed to the method
        "forall(range(0, len(reactions)), lambda a: in_list(reactions[a], old(reactions)))",
        "forall(range(0, len(reactions)), lambda a: let(reactions[a], lambda r: old(self.solved_by_col in r) and old(r[self.solved_by_col]) == self.solved_by_method))",
        "forall(range(0, len(old(reactions))), lambda j: let(old(reactions)[j], lambda r: implies(old(self.solved_by_col in r) and old(r[self.solved_by_col]) == self.solved_by_method, in_list(r, reactions))))",
        "forall(range(0, len(reactions)), lambda a: forall(range(0, len(reactions)), lambda b: implies(a != b, not (reactions[a] is reactions[b]))))",
        "implies(not is_none(stats), same_map(stats, old(mapof(stats))))",
    ]
    reg.contract(
        FCP, "ConfidencePredictor.predict",
        params={"self": Obj("ConfidencePredictor"), "reactions": ROWS, "stats": Ty("opt", COMP), "threshold": REAL},
        returns=ROWS,
        requires=["distinct_rows(reactions)", pdistinct, PRE_ROWS],
        # the assertion inside the loop ("a solved MCS row has an empty issue") can only fail for such a row
        raises={"AssertionError": "exists(range(0, len(reactions)), lambda j: self.solved_by_col in {R} and {R}[self.solved_by_col] == self.solved_by_method "
                                  "and {R}[self.issue_col] != '')".format(R=R)},
        ensures=["len(reactions) == old(len(reactions))",
                 "forall(range(0, len(reactions)), lambda j: reactions[j] is old(reactions[j]))"]
        + ["forall(range(0, len(reactions)), lambda j: %s)" % p for p in PPOST]
        + [only_keys("reactions", PKEYS),
           "implies(not is_none(stats), 'confident_cnt' in stats and stats['confident_cnt'] >= 0)",
           # confident_cnt is the number of returned (scored) rows whose confidence reaches the threshold, i.e. that stay solved [C18]
           "implies(not is_none(stats), stats['confident_cnt'] == sum(1 for r in result if as_real(r[self.confidence_col]) >= threshold))",
           # ... which is the number of rows of the argument list that are attributed to the method and reach the threshold
           "implies(not is_none(stats), stats['confident_cnt'] == sum(1 for j in range(0, len(reactions)) if {M} and as_real({R}[self.confidence_col]) >= threshold))".format(M=M, R=R),
           "implies(not is_none(stats), forall(STR, lambda k: implies(k != 'confident_cnt', get0(stats, k) == old(get0(stats, k)) and (k in stats) == old(k in stats))))"] + PPOST_EXTRA,
        modifies=["each(reactions)", "stats"],
        loops={0: {"inv": PINV}},
        shards=8,
        props=["C13", "C18", "C03"])

    # ------------------------------------------------------------------------------------------------
    # MCS based method
    FM = "synrbl/SynMCSImputer/mcs_based_method.py"
    reg.specfun("ISCB", [STR], BOOL)   # is_carbon_balanced(reaction string)
    reg.classdecl("CompoundSet", {})
    reg.classdecl("MergeRuleRef", {"name": STR})
    reg.classdecl("Compound", {"smiles": STR, "rules": List(Obj("MergeRuleRef"))})
    reg.classdecl("Standardizer", {})
    reg.contract(FM, "build_compounds", params={"data_dict": VAL}, returns=Obj("CompoundSet"), assumed=True,
                 fresh_result=True, raises={"Exception": None},
                 note="fragment preparation over RDKit objects; may raise; does not touch the reaction rows",
                 props=["C02", "C03", "C11"])
    reg.contract("synrbl/SynMCSImputer/merge.py", "merge", params={"compound_set": Obj("CompoundSet")},
                 returns=Obj("Compound"), assumed=True, fresh_result=True, raises={"Exception": None},
                 note="fragment merging (C09 covers it separately); may raise; does not touch the reaction rows",
                 props=["C02", "C03", "C11"])
    reg.contract("synrbl/SynChemImputer/molecule_standardizer.py", "Standardizer.__call__",
                 params={"self": Obj("Standardizer"), "smiles": STR}, returns=STR, assumed=True,
                 raises={"Exception": None},
                 note="MoleculeStandardizer.__call__: a string to string function that may raise (C20 covers it separately)",
                 props=["C02", "C03", "C11"])
    reg.contract("synrbl/SynMCSImputer/utils.py", "is_carbon_balanced", params={"reaction_smiles": STR}, returns=BOOL,
                 assumed=True, raises={"Exception": None}, ensures=["result == ISCB(reaction_smiles)"],
                 note="RDKit carbon count of both sides", props=["C02", "C03", "C11"])
    reg.contract(
        FM, "impute_reaction",
        params={"reaction_dict": ROW, "reaction_col": STR, "issue_col": STR, "carbon_balance_col": STR,
                "mcs_data_col": STR, "smiles_standardizer": List(Obj("Standardizer"))},
        returns=Tuple(STR, List(STR)),
        requires=["reaction_col in reaction_dict and is_str(reaction_dict[reaction_col])",
                  "mcs_data_col in reaction_dict and carbon_balance_col in reaction_dict"],
        raises={"Exception": None},
        ensures=[
            # only ever appends one dot-joined completion to the reaction it was given [C02]
            "prefixof(as_str(reaction_dict[reaction_col]) + '.', result[0])",
            # ... so a reaction stays a reaction (the '>>' of the given text is still there)
            "implies(contains(as_str(reaction_dict[reaction_col]), '>>'), contains(result[0], '>>'))",
            # refuses rows that carry an issue or lack carbon on the reactant side [C03]
            "not (issue_col in reaction_dict) or reaction_dict[issue_col] == ''",
            "reaction_dict[carbon_balance_col] == 'products' or reaction_dict[carbon_balance_col] == 'balanced'",
            "ISCB(result[0])",
        ],
        modifies=[],
        locals_types={"rules": List(STR)},
        props=["C02", "C03", "C11"])

    reg.classdecl("MCSBasedMethod", {"reaction_col": STR, "output_col": List(STR), "mcs_data_col": STR, "issue_col": STR,
                                     "rules_col": STR, "carbon_balance_col": STR,
                                     "smiles_standardizer": List(Obj("Standardizer"))})
    reg.contract("rdkit", "BlockLogs", params={}, returns=VAL, assumed=True, note="RDKit log silencer", props=[])
    MC = ["self.reaction_col", "self.mcs_data_col", "self.issue_col", "self.rules_col", "self.carbon_balance_col"]
    mdistinct = " and ".join("%s != %s" % (a, b) for i, a in enumerate(MC) for b in MC[i + 1:])
    R = "reactions[j]"
    TRIED = "(old(self.mcs_data_col in {R}) and not is_none(old({R}[self.mcs_data_col])))".format(R=R)
    MPOST = [
        # rows without search data are not touched [C01 frame, C03]
        "implies(not {T}, same_map({R}, old(mapof({R}))))".format(T=TRIED, R=R),
        # a tried row either keeps its reaction and gets the failure text as issue, or gets one appended completion
        "implies({T}, forall(STR, lambda k: implies(k != self.reaction_col and k != self.rules_col and k != self.issue_col, "
        "{R}[k] == old({R}[k]) and (k in {R}) == old(k in {R}))))".format(T=TRIED, R=R),
        "implies({T}, ({R}[self.reaction_col] == old({R}[self.reaction_col]) and self.issue_col in {R} and is_str({R}[self.issue_col]) "
        "and {R}[self.rules_col] == old({R}[self.rules_col]) and (self.rules_col in {R}) == old(self.rules_col in {R})) "
        "or (is_str({R}[self.reaction_col]) and prefixof(as_str(old({R}[self.reaction_col])) + '.', as_str({R}[self.reaction_col])) "
        "and implies(contains(as_str(old({R}[self.reaction_col])), '>>'), contains(as_str({R}[self.reaction_col]), '>>')) "
        "and ISCB(as_str({R}[self.reaction_col])) "
        "and {R}[self.issue_col] == old({R}[self.issue_col]) and (self.issue_col in {R}) == old(self.issue_col in {R}) "
        "and (not old(self.issue_col in {R}) or old({R}[self.issue_col]) == '') "
        "and (old({R}[self.carbon_balance_col]) == 'products' or old({R}[self.carbon_balance_col]) == 'balanced')))".format(T=TRIED, R=R),
    ]
    reg.contract(
        FM, "MCSBasedMethod.run",
        params={"self": Obj("MCSBasedMethod"), "reactions": ROWS, "stats": Ty("opt", COMP)}, returns=ROWS,
        requires=["distinct_rows(reactions)", mdistinct,
                  "len(self.output_col) == 1 and self.output_col[0] == self.reaction_col",
                  "forall(range(0, len(reactions)), lambda j: implies(self.mcs_data_col in {R} and not is_none({R}[self.mcs_data_col]), "
                  "self.reaction_col in {R} and is_str({R}[self.reaction_col]) and self.carbon_balance_col in {R}))".format(R=R)],
        ensures=["result is reactions and len(reactions) == old(len(reactions))",
                 "forall(range(0, len(reactions)), lambda j: reactions[j] is old(reactions[j]))"]
        + ["forall(range(0, len(reactions)), lambda j: %s)" % p for p in MPOST]
        + ["implies(not is_none(stats), 'mcs_applied' in stats and 'mcs_solved' in stats and stats['mcs_solved'] <= stats['mcs_applied'] "
           "and 0 <= stats['mcs_solved'] and stats['mcs_applied'] <= len(reactions))",
           # mcs_applied counts the rows that reached the stage with a search-data key, mcs_solved those that got a completion appended [C18]
           "implies(not is_none(stats), stats['mcs_applied'] == sum(1 for j in range(0, len(reactions)) if old(self.mcs_data_col in {R})))".format(R=R),
           "implies(not is_none(stats), stats['mcs_solved'] == sum(1 for j in range(0, len(reactions)) if {T} and {R}[self.reaction_col] != old({R}[self.reaction_col])))".format(T=TRIED, R=R),
           "implies(not is_none(stats), forall(STR, lambda k: implies(k != 'mcs_applied' and k != 'mcs_solved', get0(stats, k) == old(get0(stats, k)) and (k in stats) == old(k in stats))))"],
        modifies=["each(reactions)", "stats"],
        loops={0: {"inv": [
            "len(reactions) == old(len(reactions)) and forall(range(0, len(reactions)), lambda j: reactions[j] is old(reactions[j]))",
            "forall(ROW, lambda r: implies(not in_list(r, reactions), same_map(r, old(mapof(r)))))",
            "forall(range(_i, len(reactions)), lambda j: same_map({R}, old(mapof({R}))))".format(R=R),
            "0 <= mcs_solved and mcs_solved <= mcs_applied and mcs_applied <= _i",
            # the counters: rows carrying search data / rows whose reaction got a completion appended [C18]
            "mcs_applied == sumto(_i, (1 for j in range(0, len(reactions)) if old(self.mcs_data_col in {R})))".format(R=R),
            "mcs_solved == sumto(_i, (1 for j in range(0, len(reactions)) if {T} and {R}[self.reaction_col] != old({R}[self.reaction_col])))".format(T=TRIED, R=R),
            "implies(not is_none(stats), same_map(stats, old(mapof(stats))))",
            "len(self.output_col) == 1 and self.output_col[0] == self.reaction_col",
        ] + ["forall(range(0, _i), lambda j: %s)" % p for p in MPOST]},
            1: {"inv": [
                "len(reactions) == old(len(reactions)) and forall(range(0, len(reactions)), lambda j: reactions[j] is old(reactions[j]))",
                "forall(ROW, lambda r: implies(not (r is reaction), same_map(r, at('loop1', mapof(r)))))",
                "forall(STR, lambda k: implies(k != self.reaction_col, reaction[k] == at('loop1', reaction[k]) and (k in reaction) == at('loop1', k in reaction)))",
                "implies(_i >= 1, reaction[self.reaction_col] == result)",
                "implies(_i == 0, same_map(reaction, at('loop1', mapof(reaction))))",
                "len(self.output_col) == 1 and self.output_col[0] == self.reaction_col",
            ]}},
        shards=8,
        props=["C02", "C03", "C11", "C18", "C01"])

    # ------------------------------------------------------------------------------------------------
    # MCSSearch.find
    FS = "synrbl/mcs_search.py"
    reg.classdecl("MCSSearch", {"id_col": STR, "solved_col": STR, "mcs_data_col": STR, "issue_col": STR, "n_jobs": VAL,
                                "conditions": VAL})
    reg.contract("synrbl/SynMCSImputer/SubStructure/mcs_process.py", "ensemble_mcs",
                 params={"data": ROWS, "conditions": VAL, "id_col": STR, "issue_col": STR, "n_jobs": VAL},
                 returns=Tuple(ROWS, ROWS, ROWS), fresh_result=True, assumed=True,
                 ensures=[("len(result[%d]) == len(data) and forall(range(0, len(data)), lambda j: fresh(result[%d][j]) and "
                           "id_col in result[%d][j] and result[%d][j][id_col] == data[j][id_col] and issue_col in result[%d][j])") % (c, c, c, c, c)
                          for c in range(3)],
                 note="three search conditions; one fresh record per (condition, reaction) carrying the reaction's id and an issue key; "
                      "input rows are not modified; no exception escapes (C11 checks this by fault injection)",
                 props=["C03", "C06", "C10", "C11"])
    reg.contract("synrbl/SynMCSImputer/SubStructure/extract_common_mcs.py", "ExtractMCS.get_largest_condition",
                 params={"c0": ROWS, "c1": ROWS, "c2": ROWS}, returns=ROWS, fresh_result=True, assumed=True,
                 ensures=["forall(range(0, len(result)), lambda k: in_list(result[k], c0) or in_list(result[k], c1) or in_list(result[k], c2))"],
                 note="returns records taken from its arguments (the selection itself is verified separately for C10)",
                 props=["C03", "C06", "C10", "C11"])
    reg.contract("synrbl/SynMCSImputer/MissingGraph/find_graph_dict.py", "find_graph_dict",
                 params={"mcs_dict": ROWS, "n_jobs": VAL}, returns=ROWS, fresh_result=True, assumed=True,
                 ensures=["len(result) == len(mcs_dict)",
                          "forall(range(0, len(result)), lambda j: fresh(result[j]))",
                          "forall(range(0, len(result)), lambda a: forall(range(0, len(result)), lambda b: implies(a != b, not (result[a] is result[b]))))"],
                 note="one fresh result record per input record, in order; input records are not modified; no exception escapes",
                 props=["C03", "C06", "C10", "C11"])
    SC = ["self.id_col", "self.solved_col", "self.mcs_data_col", "self.issue_col"]
    sdistinct = " and ".join("%s != %s" % (a, b) for i, a in enumerate(SC) for b in SC[i + 1:])
    R = "reactions[j]"
    UNS = "(not truthy(old({R}[self.solved_col])))".format(R=R)
    SPOST = [
        "implies(not {U}, same_map({R}, old(mapof({R}))))".format(U=UNS, R=R),
        "implies({U}, forall(STR, lambda k: implies(k != self.mcs_data_col and k != self.issue_col, {R}[k] == old({R}[k]) and (k in {R}) == old(k in {R}))))".format(U=UNS, R=R),
        # every unsolved row leaves with an issue key; the attached search result carries the row's own id [C03, C06, C10]
        "implies({U}, self.mcs_data_col in {R} and self.issue_col in {R} and "
        "((is_none({R}[self.mcs_data_col]) and {R}[self.issue_col] == 'No MCS identified.') or "
        "(is_ref({R}[self.mcs_data_col]) and let(as_row({R}[self.mcs_data_col]), lambda m: m[self.id_col] == {R}[self.id_col] and {R}[self.issue_col] == m[self.issue_col]))))".format(U=UNS, R=R),
    ]
    reg.contract(
        FS, "MCSSearch.find",
        params={"self": Obj("MCSSearch"), "reactions": ROWS}, returns=ROWS,
        requires=["distinct_rows(reactions)", sdistinct,
                  "forall(range(0, len(reactions)), lambda j: self.solved_col in {R} and self.id_col in {R})".format(R=R),
                  "forall(range(0, len(reactions)), lambda a: forall(range(0, len(reactions)), lambda b: implies(a != b, not (reactions[a][self.id_col] == reactions[b][self.id_col]))))"],
        ensures=["result is reactions and len(reactions) == old(len(reactions))",
                 "forall(range(0, len(reactions)), lambda j: reactions[j] is old(reactions[j]))"]
        + ["forall(range(0, len(reactions)), lambda j: %s)" % p for p in SPOST],
        modifies=["each(reactions)", "*D.str.val.dom", "*D.str.val.val"],
        locals_types={"id2idx_map": Dict(VAL, INT), "mcs_reactions": ROWS},
        loops={
            0: {"inv": [
                "len(reactions) == old(len(reactions)) and forall(range(0, len(reactions)), lambda j: reactions[j] is old(reactions[j]))",
                "forall(ROW, lambda r: implies(not in_list(r, reactions), same_map(r, old(mapof(r)))))",
                "forall(range(_i, len(reactions)), lambda j: same_map({R}, old(mapof({R}))))".format(R=R),
                "forall(range(0, _i), lambda j: implies(not {U}, same_map({R}, old(mapof({R})))))".format(U=UNS, R=R),
                "forall(range(0, _i), lambda j: implies({U}, forall(STR, lambda k: implies(k != self.mcs_data_col and k != self.issue_col, {R}[k] == old({R}[k]) and (k in {R}) == old(k in {R}))) "
                "and self.mcs_data_col in {R} and is_none({R}[self.mcs_data_col]) and self.issue_col in {R} and {R}[self.issue_col] == 'No MCS identified.' "
                "and {R}[self.id_col] in id2idx_map and id2idx_map[{R}[self.id_col]] == j and in_list({R}, mcs_reactions)))".format(U=UNS, R=R),
                "forall(VALUE, lambda v: implies(v in id2idx_map, 0 <= id2idx_map[v] and id2idx_map[v] < _i))",
                "forall(VALUE, lambda v: implies(v in id2idx_map, reactions[id2idx_map[v]][self.id_col] == v))",
                "forall(VALUE, lambda v: implies(v in id2idx_map, let(id2idx_map[v], lambda i: not truthy(old(reactions[i][self.solved_col])))))",
                "forall(range(0, len(mcs_reactions)), lambda a: let(mcs_reactions[a], lambda r: r[self.id_col] in id2idx_map and reactions[id2idx_map[r[self.id_col]]] is r))",
                "forall(range(0, len(mcs_reactions)), lambda a: let(mcs_reactions[a], lambda r: not truthy(old(r[self.solved_col]))))",
                "forall(range(0, len(mcs_reactions)), lambda a: mcs_reactions[a][self.id_col] in id2idx_map)",
                "fresh(mcs_reactions) and fresh(id2idx_map)",
            ]},
            1: {"inv": [
                "len(reactions) == old(len(reactions)) and forall(range(0, len(reactions)), lambda j: reactions[j] is old(reactions[j]))",
                "len(largest_conditions) == len(mcs_results)",
                # records that are neither rows nor result records keep their content (in particular the condition records)
                "forall(ROW, lambda r: implies(not in_list(r, reactions) and not in_list(r, mcs_results), same_map(r, at('loop1', mapof(r)))))",
                "forall(range(0, len(mcs_results)), lambda k: not in_list(mcs_results[k], reactions) and not in_list(mcs_results[k], largest_conditions))",
                "forall(range(0, len(mcs_results)), lambda a: forall(range(0, len(mcs_results)), lambda b: implies(a != b, not (mcs_results[a] is mcs_results[b]))))",
                "forall(range(0, len(largest_conditions)), lambda k: not in_list(largest_conditions[k], mcs_results))",
                "forall(range(0, len(largest_conditions)), lambda k: not in_list(largest_conditions[k], reactions) and self.id_col in largest_conditions[k] "
                "and largest_conditions[k][self.id_col] in id2idx_map and self.issue_col in largest_conditions[k])",
                "forall(VALUE, lambda v: implies(v in id2idx_map, 0 <= id2idx_map[v] and id2idx_map[v] < len(reactions) and "
                "reactions[id2idx_map[v]][self.id_col] == v and let(id2idx_map[v], lambda i: not truthy(old(reactions[i][self.solved_col])))))",
                "forall(range(0, len(reactions)), lambda j: implies(not {U}, same_map({R}, old(mapof({R})))))".format(U=UNS, R=R),
                "forall(range(0, len(reactions)), lambda j: implies({U}, forall(STR, lambda k: implies(k != self.mcs_data_col and k != self.issue_col, {R}[k] == old({R}[k]) and (k in {R}) == old(k in {R})))))".format(U=UNS, R=R),
                "forall(range(0, len(reactions)), lambda j: implies({U}, self.mcs_data_col in {R} and self.issue_col in {R} and (is_none({R}[self.mcs_data_col]) or is_ref({R}[self.mcs_data_col]))))".format(U=UNS, R=R),
                "forall(range(0, len(reactions)), lambda j: implies({U} and is_none({R}[self.mcs_data_col]), {R}[self.issue_col] == 'No MCS identified.'))".format(U=UNS, R=R),
                "forall(range(0, len(reactions)), lambda j: implies({U} and is_ref({R}[self.mcs_data_col]), let(as_row({R}[self.mcs_data_col]), lambda m: in_list(m, mcs_results) and index_in(m, mcs_results) < _i)))".format(U=UNS, R=R),
                "forall(range(0, len(reactions)), lambda j: implies({U} and is_ref({R}[self.mcs_data_col]), let(as_row({R}[self.mcs_data_col]), lambda m: m[self.id_col] == {R}[self.id_col])))".format(U=UNS, R=R),
                "forall(range(0, len(reactions)), lambda j: implies({U} and is_ref({R}[self.mcs_data_col]), let(as_row({R}[self.mcs_data_col]), lambda m: {R}[self.issue_col] == m[self.issue_col])))".format(U=UNS, R=R),
            ]},
            2: {"inv": [
                "forall(ROW, lambda r: implies(not (r is mcs_result), same_map(r, at('loop2', mapof(r)))))",
                "forall(STR, lambda k: implies(done(k), k in mcs_result and mcs_result[k] == largest_condition[k]))",
                "forall(STR, lambda k: implies(not done(k), mcs_result[k] == at('loop2', mcs_result[k]) and (k in mcs_result) == at('loop2', k in mcs_result)))",
                "not (mcs_result is largest_condition)",
            ]},
        },
        shards=8,
        props=["C03", "C06", "C10", "C11", "C01", "C04"])

    # ------------------------------------------------------------------------------------------------
    # assumed stage contracts: preprocess, RuleBasedMethod.run (pandas / joblib heavy; checked at run time)
    PRE_KEYS = ["reaction_col", "index_col", "solved_col", "input_col", "'reactants'", "'products'"]
    reg.contract(
        "synrbl/preprocess.py", "preprocess",
        params={"reactions": ROWS, "reaction_col": STR, "index_col": STR, "solved_col": STR, "input_col": STR,
                "remove_aam": BOOL},
        returns=ROWS, fresh_result=True, assumed=True,
        ensures=[
            "len(result) <= len(reactions)",
            "distinct_rows(result) and forall(range(0, len(result)), lambda j: fresh(result[j]))",
            "forall(range(0, len(result)), lambda j: reaction_col in result[j] and is_str(result[j][reaction_col]) and split_len(as_str(result[j][reaction_col]), '>>') == 2 "
            "and index_col in result[j] and result[j][index_col] == str(j) and solved_col in result[j] and result[j][solved_col] == False "
            "and input_col in result[j] and result[j][input_col] == result[j][reaction_col] and 'reactants' in result[j] and 'products' in result[j])",
            "forall(range(0, len(result)), lambda a: forall(range(0, len(result)), lambda b: implies(a != b, not (result[a][index_col] == result[b][index_col]))))",
            "forall(range(0, len(result)), lambda j: forall(STR, lambda k: implies(k in result[j] and " + " and ".join("k != %s" % k for k in PRE_KEYS)
            + ", exists(range(0, len(reactions)), lambda i: old(k in reactions[i])))))",
        ],
        modifies=["each(reactions)"],
        note="pandas round trip: one fresh row per parsable input row in order, id = row position, solved = False, input_reaction = reaction "
             "(that no row is dropped is C05's claim and is NOT assumed here)",
        props=["C01", "C03", "C04", "C05", "C06", "C18"])

    reg.specfun("RBF", [STR, VAL], STR)   # result of the rule-based stage on one reaction string with its stored carbon label
    reg.classdecl("RuleBasedMethod", {"id_col": STR, "reaction_col": STR, "output_col": STR, "n_jobs": VAL, "rules": VAL})
    R = "reactions[j]"
    RCMP = "CMPD(DEC(split_at(as_str(old({R}[self.reaction_col])), '>>', 0)), DEC(split_at(as_str(old({R}[self.reaction_col])), '>>', 1)))".format(R=R)
    reg.contract(
        "synrbl/rule_based.py", "RuleBasedMethod.run",
        params={"self": Obj("RuleBasedMethod"), "reactions": ROWS, "stats": Ty("opt", COMP)}, returns=ROWS, assumed=True,
        requires=["distinct_rows(reactions)", "self.output_col == self.reaction_col",
                  "self.reaction_col != 'reactants' and self.reaction_col != 'products' and self.reaction_col != 'carbon_balance_check'",
                  "forall(range(0, len(reactions)), lambda j: self.reaction_col in {R} and is_str({R}[self.reaction_col]) and "
                  "split_len(as_str({R}[self.reaction_col]), '>>') >= 2 and 'carbon_balance_check' in {R} and self.id_col in {R} and {R}[self.id_col] == str(j))".format(R=R)],
        ensures=[
            "result is reactions and len(reactions) == old(len(reactions))",
            "forall(range(0, len(reactions)), lambda j: reactions[j] is old(reactions[j]))",
            only_keys("reactions", ["self.reaction_col", "'reactants'", "'products'"]),
            # rows that compare as balanced keep their reaction [C01, C04]
            "forall(range(0, len(reactions)), lambda j: implies({C} == 'Balance', {R}[self.reaction_col] == old({R}[self.reaction_col])))".format(C=RCMP, R=R),
            "forall(range(0, len(reactions)), lambda j: is_str({R}[self.reaction_col]) and split_len(as_str({R}[self.reaction_col]), '>>') >= 2 "
            "and 'reactants' in {R} and 'products' in {R})".format(R=R),
            # the rewritten reaction is a function of the reaction and the stored carbon label (the stage is deterministic and row-wise) [C03, C06]
            "forall(range(0, len(reactions)), lambda j: {R}[self.reaction_col] == RBF(as_str(old({R}[self.reaction_col])), old({R}['carbon_balance_check'])))".format(R=R),
            "implies(not is_none(stats), 'balanced_cnt' in stats and 'rb_applied' in stats and 'rb_solved' in stats and "
            "0 <= stats['rb_solved'] and stats['rb_solved'] <= stats['rb_applied'] and 0 <= stats['balanced_cnt'])",
            "implies(not is_none(stats), forall(STR, lambda k: implies(k != 'balanced_cnt' and k != 'rb_applied' and k != 'rb_solved', "
            "get0(stats, k) == old(get0(stats, k)) and (k in stats) == old(k in stats))))",
        ],
        modifies=["each(reactions)", "stats"],
        note="the stage never rewrites a reaction whose two sides compare as balanced",
        props=["C01", "C03", "C04", "C18", "C02"])

    # ------------------------------------------------------------------------------------------------
    # Balancer.__post_process and Balancer.__run_pipeline (composition of the stage contracts)
    FBAL = "synrbl/balancing.py"
    reg.classdecl("PostProcess", {"id_col": STR, "reaction_col": STR, "n_jobs": VAL, "verbose": VAL})
    reg.contract("synrbl/SynChemImputer/post_process.py", "PostProcess.fit",
                 params={"self": Obj("PostProcess"), "data": ROWS}, returns=ROWS, fresh_result=True, assumed=True,
                 ensures=["forall(range(0, len(result)), lambda k: fresh(result[k]) and 'label' in result[k] and self.id_col in result[k] and "
                          "exists(range(0, len(data)), lambda j: data[j][self.id_col] == result[k][self.id_col]) and "
                          "implies('curated_reaction' in result[k], is_str(result[k]['curated_reaction']) and split_len(as_str(result[k]['curated_reaction']), '>>') >= 2))"],
                 note="labels / curates copies of the rows it is given; every result carries the id of one of them; the argument rows are not modified",
                 props=["C01", "C03", "C04", "C06"])
    BF = {"_Balancer__reaction_col": STR, "_Balancer__id_col": STR, "_Balancer__solved_col": STR, "_Balancer__solved_by_col": STR,
          "_Balancer__mcs_data_col": STR, "_Balancer__input_col": STR, "_Balancer__confidence_col": STR, "_Balancer__unbalance_col": STR,
          "_Balancer__carbon_balance_col": STR, "_Balancer__rules_col": STR, "_Balancer__issue_col": STR, "remove_aam": BOOL,
          "confidence_threshold": REAL, "input_validator": Obj("Validator"), "rb_validator": Obj("Validator"), "mcs_validator": Obj("Validator"),
          "rb_method": Obj("RuleBasedMethod"), "mcs_search": Obj("MCSSearch"), "mcs_method": Obj("MCSBasedMethod"),
          "post_processor": Obj("PostProcess"), "conf_predictor": Obj("ConfidencePredictor")}
    reg.classdecl("Balancer", BF)
    RC, IC = "self._Balancer__reaction_col", "self._Balancer__id_col"
    R = "reactions[j]"
    reg.contract(
        FBAL, "Balancer.__post_process",
        params={"self": Obj("Balancer"), "reactions": ROWS},
        requires=["distinct_rows(reactions)", "%s != %s and self._Balancer__solved_by_col != %s and self._Balancer__solved_by_col != %s" % (RC, IC, RC, IC),
                  "self.post_processor.id_col == %s" % IC,
                  "forall(range(0, len(reactions)), lambda j: %s in {R})".format(R=R) % IC,
                  "forall(range(0, len(reactions)), lambda a: forall(range(0, len(reactions)), lambda b: implies(a != b, not (reactions[a][%s] == reactions[b][%s]))))" % (IC, IC),
                  "forall(range(0, len(reactions)), lambda j: %s in {R} and is_str({R}[%s]) and split_len(as_str({R}[%s]), '>>') >= 2)".format(R=R) % (RC, RC, RC)],
        ensures=[
            "forall(range(0, len(reactions)), lambda j: %s in {R} and is_str({R}[%s]) and split_len(as_str({R}[%s]), '>>') >= 2)".format(R=R) % (RC, RC, RC),
            "len(reactions) == old(len(reactions)) and forall(range(0, len(reactions)), lambda j: reactions[j] is old(reactions[j]))",
            only_keys("reactions", [RC]),
            # rows that were never solved, or were solved by the input check, keep their reaction [C03, C04]
            "forall(range(0, len(reactions)), lambda j: implies(not old(self._Balancer__solved_by_col in {R}) or old({R}[self._Balancer__solved_by_col]) == 'input-balanced', "
            "{R}[%s] == old({R}[%s])))".format(R=R) % (RC, RC),
        ],
        modifies=["each(reactions)"],
        locals_types={"key_index_map": Dict(VAL, INT), "pp_data": ROWS},
        loops={0: {"inv": [
            "len(reactions) == old(len(reactions)) and forall(range(0, len(reactions)), lambda j: reactions[j] is old(reactions[j]))",
            "forall(range(0, len(reactions)), lambda j: forall(STR, lambda k: implies(k != %s, {R}[k] == old({R}[k]) and (k in {R}) == old(k in {R}))))".format(R=R) % RC,
            "forall(range(0, len(reactions)), lambda j: %s in {R} and is_str({R}[%s]) and split_len(as_str({R}[%s]), '>>') >= 2)".format(R=R) % (RC, RC, RC),
            "forall(range(0, len(reactions)), lambda j: implies(not old(self._Balancer__solved_by_col in {R}) or old({R}[self._Balancer__solved_by_col]) == 'input-balanced', "
            "{R}[%s] == old({R}[%s])))".format(R=R) % (RC, RC),
        ]}},
        props=["C01", "C02", "C03", "C04", "C05", "C06"])

    S = "self"
    def vcfg(v, method, carbon):
        return [
            "%s.reaction_col == %s and %s.method == '%s' and %s.solved_col == 'solved' and %s.solved_method_col == 'solved_by'" % (v, RC, v, method, v, v),
            "%s.unbalance_col == 'unbalance_col' and %s.check_carbon_balance == %s and %s.carbon_balance_col == 'carbon_balance_check' and %s.issue_col == 'issue'" % (v, v, carbon, v, v),
        ]
    FIXED = ["'solved'", "'solved_by'", "'mcs'", "'input_reaction'", "'confidence'", "'unbalance_col'", "'carbon_balance_check'", "'rules'", "'issue'",
             "'reactants'", "'products'", "'num_boundary'", "'bond_change_merge'", "'ring_change_merge'"]
    CFG = (
        ["self._Balancer__solved_col == 'solved' and self._Balancer__solved_by_col == 'solved_by' and self._Balancer__input_col == 'input_reaction' "
         "and self._Balancer__issue_col == 'issue' and self._Balancer__mcs_data_col == 'mcs'",
         "%s != %s and " % (RC, IC) + " and ".join("%s != %s and %s != %s" % (RC, f, IC, f) for f in FIXED)]
        + vcfg("self.input_validator", "input-balanced", "True") + vcfg("self.rb_validator", "rule-based", "False")
        + vcfg("self.mcs_validator", "mcs-based", "True")
        + ["self.rb_method.id_col == %s and self.rb_method.reaction_col == %s and self.rb_method.output_col == %s" % (IC, RC, RC),
           "self.mcs_search.id_col == %s and self.mcs_search.solved_col == 'solved' and self.mcs_search.mcs_data_col == 'mcs' and self.mcs_search.issue_col == 'issue'" % IC,
           "self.mcs_method.reaction_col == %s and len(self.mcs_method.output_col) == 1 and self.mcs_method.output_col[0] == %s and self.mcs_method.mcs_data_col == 'mcs' "
           "and self.mcs_method.issue_col == 'issue' and self.mcs_method.rules_col == 'rules' and self.mcs_method.carbon_balance_col == 'carbon_balance_check'" % (RC, RC),
           "self.post_processor.id_col == %s and self.post_processor.reaction_col == %s" % (IC, RC),
           "self.conf_predictor.reaction_col == %s and self.conf_predictor.input_reaction_col == 'input_reaction' and self.conf_predictor.confidence_col == 'confidence' "
           "and self.conf_predictor.solved_col == 'solved' and self.conf_predictor.solved_by_col == 'solved_by' and self.conf_predictor.solved_by_method == 'mcs-based' "
           "and self.conf_predictor.issue_col == 'issue' and self.conf_predictor.mcs_col == 'mcs'" % RC,
           # the objects are distinct (a Balancer builds each of them itself)
           "not (self.input_validator is self.rb_validator) and not (self.input_validator is self.mcs_validator) and not (self.rb_validator is self.mcs_validator)",
           ])
    # ---- program-point invariants (cut points) of __run_pipeline, over the local list `reactions`
    Q = "reactions[j]"
    def allrows(body):
        return "forall(range(0, len(reactions)), lambda j: %s)" % body.format(Q=Q, RC=RC, IC=IC)
    INP = "as_str({Q}['input_reaction'])"
    BAL = ("(CMPD(DEC(split_at(" + INP + ", '>>', 0)), DEC(split_at(" + INP + ", '>>', 1))) == 'Balance' and CLABEL(" + INP + ") == 'balanced')")
    IB = "('solved_by' in {Q} and {Q}['solved_by'] == 'input-balanced')"
    SHAPE = [
        "distinct_rows(reactions) and len(reactions) <= old(len(reactions))",
        allrows("{RC} in {Q} and is_str({Q}[{RC}]) and split_len(as_str({Q}[{RC}]), '>>') >= 2"),
        allrows("{IC} in {Q} and {Q}[{IC}] == str(j)"),
        "forall(range(0, len(reactions)), lambda a: forall(range(0, len(reactions)), lambda b: implies(a != b, not (reactions[a][%s] == reactions[b][%s]))))" % (IC, IC),
        allrows("'solved' in {Q} and 'input_reaction' in {Q} and is_str({Q}['input_reaction']) and split_len(as_str({Q}['input_reaction']), '>>') >= 2 "
                "and 'reactants' in {Q} and 'products' in {Q}"),
        "implies(not is_none(stats), 'reaction_cnt' in stats and stats['reaction_cnt'] == old(len(reactions)))",
    ]
    CNT = ["rxn_cnt == len(reactions)"]
    AFTER_INPUT = [
        allrows("'carbon_balance_check' in {Q}"),
        allrows(IB + " == " + BAL),
        allrows("implies(" + IB + ", {Q}['solved'] == True and {Q}[{RC}] == {Q}['input_reaction'])"),
        allrows("truthy({Q}['solved']) == ('solved_by' in {Q})"),
        allrows("implies('solved_by' in {Q}, {Q}['solved_by'] == 'input-balanced' or {Q}['solved_by'] == 'rule-based' or {Q}['solved_by'] == 'mcs-based')"),
        allrows("is_bool({Q}['solved'])"),
    ]
    NO_SEARCH_KEYS = [allrows("not ('mcs' in {Q}) and not ('issue' in {Q}) and not ('confidence' in {Q}) and not ('rules' in {Q})")]
    REVERTED = [allrows("implies(not truthy({Q}['solved']), {Q}[{RC}] == {Q}['input_reaction'])")]
    MCSROWS = [allrows("implies('solved_by' in {Q} and {Q}['solved_by'] == 'mcs-based', 'issue' in {Q})")]
    NOMCSROWS = [allrows("not ('solved_by' in {Q} and {Q}['solved_by'] == 'mcs-based')")]
    AFTER_FIND = [
        allrows("implies(not truthy({Q}['solved']), 'issue' in {Q} and 'mcs' in {Q})"),
        allrows("implies(truthy({Q}['solved']), not ('mcs' in {Q}))"),
        allrows("not ('confidence' in {Q})"),
    ]
    AFTER_MCS = [
        allrows("implies(not truthy({Q}['solved']), 'issue' in {Q})"),
        allrows("implies(" + IB + ", not ('mcs' in {Q}))"),
        allrows("not ('confidence' in {Q})"),
    ]
    FINAL = [allrows("implies(not truthy({Q}['solved']), {Q}[{RC}] == {Q}['input_reaction'] and 'issue' in {Q} and {Q}['issue'] != '')"),
             allrows("not ('confidence' in {Q}) or True")]
    # C18: the MCS-applied count is the number of rows that were not solved before the MCS stage (rows finally attributed
    # to the input check or to the rule-based method are exactly the rows solved before it)
    APPLIED = ["implies(not is_none(stats), 'mcs_applied' in stats and stats['mcs_applied'] == sum(1 for j in range(0, len(reactions)) "
               "if not ('solved_by' in reactions[j] and (reactions[j]['solved_by'] == 'input-balanced' or reactions[j]['solved_by'] == 'rule-based'))))"]
    COMMON = SHAPE + CNT + AFTER_INPUT
    CUTS = {
        "rxn_cnt = len(reactions)": SHAPE + NO_SEARCH_KEYS + [
            allrows("{Q}['solved'] == False and not ('solved_by' in {Q}) and not ('carbon_balance_check' in {Q}) and {Q}['input_reaction'] == {Q}[{RC}]")],
        "self.rb_method.run@1": COMMON + NO_SEARCH_KEYS + NOMCSROWS,
        "self.rb_validator.check@1": COMMON + NO_SEARCH_KEYS + NOMCSROWS,
        "self.mcs_search.find@1": COMMON + NO_SEARCH_KEYS + REVERTED + NOMCSROWS,
        "self.mcs_method.run@1": COMMON + AFTER_FIND + REVERTED + NOMCSROWS,
        "self.mcs_validator.check@1": APPLIED + COMMON + AFTER_MCS + NOMCSROWS,
        "self.__post_process@1": APPLIED + COMMON + AFTER_MCS + MCSROWS,
        "self.rb_method.run@2": APPLIED + COMMON + AFTER_MCS + MCSROWS,
        "self.mcs_validator.check@2": APPLIED + COMMON + AFTER_MCS + MCSROWS,
        "self.conf_predictor.predict@1": APPLIED + COMMON + FINAL + MCSROWS,
        "assert rxn_cnt": APPLIED + SHAPE + CNT + [
            allrows(IB + " == " + BAL),
            allrows("implies(" + IB + ", {Q}['solved'] == True and {Q}[{RC}] == {Q}['input_reaction'])"),
            allrows("implies(truthy({Q}['solved']), 'solved_by' in {Q} and ({Q}['solved_by'] == 'input-balanced' or {Q}['solved_by'] == 'rule-based' or {Q}['solved_by'] == 'mcs-based'))"),
            "implies(self.confidence_threshold <= 0, " + allrows("implies(not truthy({Q}['solved']), {Q}[{RC}] == {Q}['input_reaction'] and 'issue' in {Q} and {Q}['issue'] != '')") + ")",
            allrows("implies('solved_by' in {Q} and {Q}['solved_by'] == 'mcs-based', is_real({Q}['confidence']) and as_real({Q}['confidence']) >= 0 and "
                    "as_real({Q}['confidence']) <= 1 and truthy({Q}['solved']) == (as_real({Q}['confidence']) >= self.confidence_threshold))"),
            # C18: the confident count is the number of returned rows that are solved by the MCS method
            "implies(not is_none(stats), 'confident_cnt' in stats and stats['confident_cnt'] == "
            "sum(1 for j in range(0, len(reactions)) if truthy(reactions[j]['solved']) and 'solved_by' in reactions[j] and reactions[j]['solved_by'] == 'mcs-based'))",
        ],
    }
    TOOL = ["'solved_by'", "'mcs'", "'issue'", "'confidence'", "'rules'", "'unbalance_col'", "'carbon_balance_check'"]
    NOTOOL = "forall(range(0, len(reactions)), lambda i: " + " and ".join("not (%s in reactions[i])" % t for t in TOOL) + ")"
    RES = "result[j]"
    reg.contract(
        FBAL, "Balancer.__run_pipeline",
        params={"self": Obj("Balancer"), "reactions": ROWS, "stats": Ty("opt", COMP)}, returns=ROWS,
        requires=CFG + [NOTOOL, "implies(not is_none(stats), forall(range(0, len(reactions)), lambda i: not (reactions[i] is None)))"],
        ensures=[
            "len(result) <= len(reactions)",
            "implies(not is_none(stats), 'reaction_cnt' in stats and stats['reaction_cnt'] == old(len(reactions)))",
            "forall(range(0, len(result)), lambda j: 'solved' in {X} and 'input_reaction' in {X} and %s in {X} and is_str({X}['input_reaction']))".format(X=RES) % RC,
            # C04: a row is labelled input-balanced exactly when its (map-free) input compares as balanced in composition and in carbon,
            # and such a row is returned solved and unchanged
            "forall(range(0, len(result)), lambda j: (('solved_by' in {X} and {X}['solved_by'] == 'input-balanced') == "
            "(CMPD(DEC(split_at(as_str({X}['input_reaction']), '>>', 0)), DEC(split_at(as_str({X}['input_reaction']), '>>', 1))) == 'Balance' "
            "and CLABEL(as_str({X}['input_reaction'])) == 'balanced')))".format(X=RES),
            "forall(range(0, len(result)), lambda j: implies('solved_by' in {X} and {X}['solved_by'] == 'input-balanced', "
            "{X}['solved'] == True and {X}[%s] == {X}['input_reaction']))".format(X=RES) % RC,
            # C03 (default threshold): a declined row is returned untouched and with a reason
            "implies(self.confidence_threshold <= 0, forall(range(0, len(result)), lambda j: implies(not truthy({X}['solved']), "
            "{X}[%s] == {X}['input_reaction'] and 'issue' in {X} and {X}['issue'] != '')))".format(X=RES) % RC,
            "forall(range(0, len(result)), lambda j: implies(truthy({X}['solved']), 'solved_by' in {X} and "
            "({X}['solved_by'] == 'input-balanced' or {X}['solved_by'] == 'rule-based' or {X}['solved_by'] == 'mcs-based')))".format(X=RES),
            # C13: MCS-based rows carry a confidence in [0,1] and are solved exactly when it reaches the threshold
            "forall(range(0, len(result)), lambda j: implies('solved_by' in {X} and {X}['solved_by'] == 'mcs-based', is_real({X}['confidence']) and "
            "as_real({X}['confidence']) >= 0 and as_real({X}['confidence']) <= 1 and truthy({X}['solved']) == (as_real({X}['confidence']) >= self.confidence_threshold)))".format(X=RES),
            # C18: the MCS-applied count equals the number of rows not solved before the MCS stage
            "implies(not is_none(stats), 'mcs_applied' in stats and stats['mcs_applied'] == sum(1 for j in range(0, len(result)) "
            "if not ('solved_by' in {X} and ({X}['solved_by'] == 'input-balanced' or {X}['solved_by'] == 'rule-based'))))".format(X=RES),
            # C18: the confident count equals the number of rows solved by the MCS method
            "implies(not is_none(stats), 'confident_cnt' in stats and stats['confident_cnt'] == "
            "sum(1 for j in range(0, len(result)) if truthy({X}['solved']) and 'solved_by' in {X} and {X}['solved_by'] == 'mcs-based'))".format(X=RES),
        ],
        modifies=["each(reactions)", "stats", "*D.str.val.dom", "*D.str.val.val", "*D.str.int.dom", "*D.str.int.val"],
        cuts=CUTS,
        allow_exc=("AssertionError",),
        note="AssertionError from the assertion inside predict is not excluded deductively (it is monitored at run time)",
        props=["C01", "C03", "C04", "C05", "C13", "C18"])

    # ------------------------------------------------------------------------------------------------
    # Balancer.__try_cache / __rebalance_batch over the ghost file system of contracts/cache.py (C12, C05)
    from contracts import cache as _cache
    _cache.register(reg)
    CM = Ty("opt", Obj("CacheManager"))
    REFS = "cache_manager._CacheManager__cache_refs"
    reg.contract("synrbl/SynUtils/batching.py", "CacheManager.get_hash_key", params={"self": Obj("CacheManager"), "data": VAL}, returns=STR,
                 assumed=True, note="sha256 of json.dumps(data, sort_keys=True): some string (which fields reach it is a syntactic obligation of C12)",
                 props=["C12"])
    STORED = "LOADS(fs_content({REFS}[result[2]]))".format(REFS=REFS)
    reg.contract(
        FBAL, "Balancer.__try_cache",
        params={"self": Obj("Balancer"), "cache_manager": CM, "batch": ROWS},
        returns=Tuple(VAL, VAL, Ty("opt", STR)),
        ensures=[
            # no cache: nothing is loaded
            "implies(is_none(cache_manager), is_none(result[0]) and is_none(result[2]))",
            # a hit returns exactly the two fields of the parsed stored entry; an unreadable or non-dictionary entry is a miss [C12]
            "implies(not is_none(result[0]), not is_none(cache_manager) and not is_none(result[2]) and result[2] in {REFS} and "
            "is_ref({ST}) and result[0] == as_row({ST})['result'] and 'result' in as_row({ST}))".format(REFS=REFS, ST=STORED),
            "implies(not is_none(result[0]) and not is_none(result[1]), result[1] == as_row({ST})['stats'])".format(ST=STORED),
        ],
        # environment: an indexed entry that was deleted after the index was built (load_cache's FileNotFoundError is not among the
        # handled exceptions); C12 quantifies over interrupted writes, not over deletions by other processes
        raises={"FileNotFoundError": None},
        modifies=[],
        props=["C12"])

    reg.contract(
        FBAL, "Balancer.__rebalance_batch",
        params={"self": Obj("Balancer"), "batch": ROWS, "cache_manager": CM},
        returns=Tuple(VAL, VAL),
        requires=CFG + [NOTOOL.replace("reactions", "batch"), "distinct_rows(batch)"],
        ensures=[
            # without a cache the file system is not touched
            "implies(is_none(cache_manager), forall(STR, lambda p: fs_exists(p) == old(fs_exists(p)) and fs_content(p) == old(fs_content(p))))",
        ],
        # whatever the pipeline raises is contained here (the batch is lost, the run goes on: C05's known finding, C11); only the
        # deleted-entry case of __try_cache escapes
        raises={"FileNotFoundError": None},
        modifies=["*FS.exists", "*FS.content", "*D.str.val.dom", "*D.str.val.val", "*D.str.int.dom", "*D.str.int.val",
                  "*L.ref.len", "*L.ref.elem"],
        props=["C12", "C05"])

    # ------------------------------------------------------------------------------------------------
    # constructors: Balancer.__init__ establishes the configuration predicate CFG that every pipeline-level contract requires,
    # so the pipeline-level claims hold for every Balancer built by its constructor (for column names that do not collide with
    # the tool's own columns)
    FPP = "synrbl/postprocess.py"
    reg.contract(FPP, "Validator.__init__",
                 params={"self": Obj("Validator"), "reaction_col": STR, "method": STR, "solved_col": STR, "solved_method_col": STR,
                         "unbalance_col": STR, "carbon_balance_col": STR, "issue_col": STR, "check_carbon_balance": BOOL, "n_jobs": VAL},
                 ensures=["self.reaction_col == reaction_col and self.method == method and self.solved_col == solved_col and "
                          "self.solved_method_col == solved_method_col and self.unbalance_col == unbalance_col and "
                          "self.check_carbon_balance == check_carbon_balance and self.carbon_balance_col == carbon_balance_col and self.issue_col == issue_col"],
                 modifies=["self"], props=["C01", "C03", "C04", "C13"])
    reg.contract("synrbl/mcs_search.py", "MCSSearch.__init__",
                 params={"self": Obj("MCSSearch"), "id_col": STR, "solved_col": STR, "mcs_data_col": STR, "issue_col": STR, "n_jobs": VAL},
                 ensures=["self.id_col == id_col and self.solved_col == solved_col and self.mcs_data_col == mcs_data_col and self.issue_col == issue_col"],
                 modifies=["self"], props=["C01", "C03", "C04", "C13"])
    reg.contract(FM, "MCSBasedMethod.__init__",
                 params={"self": Obj("MCSBasedMethod"), "reaction_col": STR, "output_col": STR, "mcs_data_col": STR, "issue_col": STR,
                         "rules_col": STR, "carbon_balance_col": STR, "smiles_standardizer": List(Obj("Standardizer"))},
                 ensures=["self.reaction_col == reaction_col and len(self.output_col) == 1 and self.output_col[0] == output_col and "
                          "self.mcs_data_col == mcs_data_col and self.issue_col == issue_col and self.rules_col == rules_col and "
                          "self.carbon_balance_col == carbon_balance_col and fresh(self.output_col)"],
                 modifies=["self"], props=["C01", "C03", "C04", "C13"])
    reg.contract("synrbl/SynChemImputer/post_process.py", "PostProcess.__init__",
                 params={"self": Obj("PostProcess"), "id_col": STR, "reaction_col": STR, "n_jobs": VAL, "verbose": VAL},
                 ensures=["self.id_col == id_col and self.reaction_col == reaction_col"],
                 modifies=["self"], props=["C01", "C03", "C04", "C13"])
    reg.contract("synrbl/rule_based.py", "RuleBasedMethod.__init__",
                 params={"self": Obj("RuleBasedMethod"), "id_col": STR, "reaction_col": STR, "output_col": STR, "n_jobs": VAL},
                 ensures=["self.id_col == id_col and self.reaction_col == reaction_col and self.output_col == output_col"],
                 modifies=["self"], assumed=True,
                 note="field assignments; the rule database is loaded from the packaged json.gz (file access not modelled)",
                 props=["C01", "C03", "C04", "C13"])
    reg.contract(FCP, "ConfidencePredictor.__init__",
                 params={"self": Obj("ConfidencePredictor"), "reaction_col": STR, "input_reaction_col": STR, "confidence_col": STR, "solved_col": STR,
                         "solved_by_col": STR, "solved_by_method": STR, "issue_col": STR, "mcs_col": STR},
                 ensures=["self.reaction_col == reaction_col and self.input_reaction_col == input_reaction_col and self.confidence_col == confidence_col and "
                          "self.solved_col == solved_col and self.solved_by_col == solved_by_col and self.solved_by_method == solved_by_method and "
                          "self.issue_col == issue_col and self.mcs_col == mcs_col"],
                 modifies=["self"], assumed=True,
                 note="field assignments; the scoring model is loaded with joblib from the packaged dump (file access not modelled)",
                 props=["C01", "C03", "C04", "C13"])
    reg.contract("synrbl/SynChemImputer/molecule_standardizer.py", "Standardizer.__init__", params={"self": Obj("Standardizer")},
                 assumed=True, note="MoleculeStandardizer(): builds its functional-group query object", props=[])
    reg.classdecl("MoleculeStandardizer", {})

    @reg.external("MoleculeStandardizer")
    def _mk_standardizer(eng, st, ctx, args, kw, node):
        return SV(Obj("Standardizer"), st.new_ref())

    BF2 = dict(BF)
    BF2.update({"_Balancer__confidence_col": STR, "_Balancer__n_jobs": VAL, "batch_size": VAL, "cache": VAL, "cache_dir": VAL, "columns": List(STR)})
    reg.classdecl("Balancer", BF2)
    RCa, ICa = "reaction_col", "id_col"
    reg.contract(
        FBAL, "Balancer.__init__",
        params={"self": Obj("Balancer"), "reaction_col": STR, "id_col": STR, "confidence_threshold": REAL, "n_jobs": VAL, "batch_size": VAL,
                "cache": VAL, "cache_dir": VAL},
        # the user's two column names must not collide with each other or with the tool's own columns
        requires=["%s != %s and " % (RCa, ICa) + " and ".join("%s != %s and %s != %s" % (RCa, f, ICa, f) for f in FIXED)],
        ensures=CFG + ["%s == reaction_col and %s == id_col and self.confidence_threshold == confidence_threshold and self.remove_aam == True" % (RC, IC)],
        modifies=["self"],
        props=["C01", "C03", "C04", "C13", "C18"])
