"""Contract for SyntheticRuleImputer.single_impute (C02, C08): the bridge between the rule matcher and the reaction text.

Proved (load together with contracts.matcher): the list handed to get_and_validate_smiles is a completion that adds
up to the row's imbalance in every element and in charge, with positive multiplicities and database compounds only
(call-site assertion, C08); the returned row is a copy in which at most one side got '.<text>' appended and
'new_reaction' is '<reactants>>><products>' of that copy - the given molecules are never rewritten (C02); the argument
row is not modified.

Assumed: copy.deepcopy (a structurally equal copy made of fresh objects), get_and_validate_smiles (RDKit check of
the joined text; a string or None), the matcher's assumed helper contracts."""
import z3
from pyvc.vtypes import *  # noqa
from pyvc.state import fresh_name, Unsupported

F = "synrbl/SynRuleImputer/synthetic_rule_imputer.py"
WF_RULE_TXT = ""
RULE = Obj("Rule")
PATH = List(Obj("Sol"))


def register(reg):
    reg.classdecl("SyntheticRuleImputer", {})
    reg.contract(F, "SyntheticRuleImputer.get_and_validate_smiles", params={"solution": PATH}, returns=Ty("opt", STR), assumed=True,
                 note="joins the compounds of a completion ('.'-separated, each repeated Ratio times) and keeps the text only if RDKit parses it",
                 props=["C02", "C08"])

    RD = "rule_dict"
    global WF_RULE_TXT
    WF_RULE = ("('Q' in rule['Composition'] and forall(STR, lambda k: implies(k in rule['Composition'] and k != 'Q', rule['Composition'][k] >= 1)) "
               "and exists(STR, lambda k: k != 'Q' and k in rule['Composition']))")
    WF_RULE_TXT = WF_RULE
    WF_DB = ("forall(rule_dict, lambda rule: " + WF_RULE + " and forall(STR, lambda k: get0(rule['Composition'], k) == CompOf(rule['smiles'], k)))")
    DIFF = "as_comp(old(missing_dict['Diff_formula']))"
    GOOD = ("(forall(STR, lambda k: pathsum(solution[0], k) == old(get0(as_comp(missing_dict['Diff_formula']), k))) and "
            "forall(range(0, len(solution[0])), lambda j: solution[0][j]['Ratio'] >= 1 and "
            "exists(rule_dict, lambda rule: rule['smiles'] == solution[0][j]['smiles'])))").format(D=DIFF)
    R0, P0 = "as_str(old(missing_dict['reactants']))", "as_str(old(missing_dict['products']))"
    reg.contract(
        F, "SyntheticRuleImputer.single_impute",
        params={"missing_dict": ROW, "rule_dict": List(RULE), "select": STR, "ranking": VAL}, returns=ROW, fresh_result=True,
        requires=[WF_DB,
                  "select == 'all'",   # the mode the rule-based stage uses (RuleBasedMethod.run builds the imputer with select='all')
                  "'Diff_formula' in missing_dict and is_ref(missing_dict['Diff_formula']) and allocated(as_comp(missing_dict['Diff_formula'])) "
                  "and 'Unbalance' in missing_dict",
                  "'reactants' in missing_dict and is_str(missing_dict['reactants']) and 'products' in missing_dict and is_str(missing_dict['products'])"],
        ensures=[
            # only ever adds '.'-separated text before or after one side (the given side text is kept as a whole); the reaction text is rebuilt from the two sides [C02]
            "(as_str(result['reactants']) == {R} and as_str(result['products']) == {P}) or "
            "exists(STR, lambda v: ((as_str(result['reactants']) == {R} + '.' + v or as_str(result['reactants']) == v + '.' + {R}) and as_str(result['products']) == {P}) or "
            "(as_str(result['reactants']) == {R} and (as_str(result['products']) == {P} + '.' + v or as_str(result['products']) == v + '.' + {P})))".format(R=R0, P=P0),
            "implies('new_reaction' in result and not old('new_reaction' in missing_dict), "
            "as_str(result['new_reaction']) == as_str(result['reactants']) + '>>' + as_str(result['products']))",
            # the argument row is left alone
            "same_map(missing_dict, old(mapof(missing_dict)))",
        ],
        sites={"matcher.match@1": [

            # the matcher works on the imbalance stored in the row (through the deep copy and the constructor)
            "forall(STR, lambda k: get0(matcher.data_dict, k) == old(get0(as_comp(missing_dict['Diff_formula']), k)))".format(D=DIFF)],
               "SyntheticRuleImputer.get_and_validate_smiles@1": [
            # the completion adds up to the imbalance in every element and in charge [C08]
            "forall(STR, lambda k: pathsum(solution[0], k) == old(get0(as_comp(missing_dict['Diff_formula']), k)))".format(D=DIFF),
            # positive multiplicities
            "forall(range(0, len(solution[0])), lambda j: solution[0][j]['Ratio'] >= 1)",
            # database compounds only
            "forall(range(0, len(solution[0])), lambda j: exists(rule_dict, lambda rule: rule['smiles'] == solution[0][j]['smiles']))",
        ]},
        modifies=[],
        locals_types={"dict_impute": ROW, "solution": List(PATH), "matcher": Obj("SyntheticRuleMatcher")},
        props=["C02", "C08"])
    register_constraint(reg)
    register_utils(reg)


def register_constraint(reg):
    """RuleConstraint.remove_banned_reactions (C08: accepted completions never add a banned species to the product side)."""
    FC = "synrbl/SynRuleImputer/synthetic_rule_constraint.py"
    PAT = Obj("Pattern")
    reg.classdecl("Pattern", {})
    reg.specfun("SEARCH", [PAT, STR], BOOL)     # pattern.search(text) finds something
    reg.specfun("NFIND", [PAT, STR], INT)       # len(re.findall(pattern, text))

    def m_obj_search(self, base, node, st, ctx):
        if base.ty != PAT:
            raise Unsupported("search on %r" % base.ty)
        (x,) = self.args_of(node, st, ctx)
        s = self.coerce(x, STR, st)
        hit = self.uf("SEARCH", [I, S], B)(base.t, s.t)
        return SV(VAL, self.fresh_const("match", VAL), none=None) if False else SV(VAL, z3.If(hit, Val.VBool(True), Val.VNone))

    reg.methods = getattr(reg, "methods", {})
    reg.methods["m_obj_search"] = m_obj_search

    @reg.external("re.findall")
    def re_findall(eng, st, ctx, args, kw, node):
        p, x = args[0], eng.coerce(args[1], STR, st)
        if p.ty != PAT:
            raise Unsupported("re.findall with %r" % p.ty)
        n = eng.uf("NFIND", [I, S], I)(p.t, x.t)
        st.assume(n >= 0)
        r = st.new_ref()
        st.set_list(List(STR), r, n, z3.Const(fresh_name("found"), z3.ArraySort(I, S)))
        return SV(List(STR), r)

    PROD = "as_str(ite('products' in {R}, {R}['products'], ''))"
    REAC = "as_str(ite('reactants' in {R}, {R}['reactants'], ''))"
    reg.contract(
        FC, "RuleConstraint.remove_banned_reactions",
        params={"reaction_list": List(ROW), "ban_pattern": PAT, "ban_pattern_reactants": PAT},
        returns=Tuple(List(ROW), List(ROW)), fresh_result=True,
        requires=["forall(range(0, len(reaction_list)), lambda j: implies('products' in reaction_list[j], is_str(reaction_list[j]['products'])) and "
                  "implies('reactants' in reaction_list[j], is_str(reaction_list[j]['reactants'])))"],
        ensures=[
            # every accepted reaction is one of the given ones, its product side does not match the ban pattern and its
            # reactant side matches the reactant pattern an even number of times [C08]
            "forall(range(0, len(result[0])), lambda k: in_list(result[0][k], reaction_list))",
            "forall(range(0, len(result[0])), lambda k: not SEARCH(ban_pattern, {P}))".format(P=PROD.format(R="result[0][k]")),
            "forall(range(0, len(result[0])), lambda k: NFIND(ban_pattern_reactants, {X}) % 2 == 0)".format(X=REAC.format(R="result[0][k]")),
        ],
        modifies=[],
        props=["C08"])


def register_utils(reg):
    """rsmi_utils.filter_data / extract_results_by_key and SyntheticRuleImputer.parallel_impute: the list plumbing of the rule-based stage"""
    FU = "synrbl/rsmi_utils.py"
    ROWS = List(ROW)
    reg.contract(
        FU, "extract_results_by_key", params={"data": ROWS, "key": STR}, returns=Tuple(ROWS, ROWS), fresh_result=True,
        ensures=[
            # a partition of the given rows by presence of the key, each part in the original order
            "forall(range(0, len(result[0])), lambda k: in_list(result[0][k], data) and key in result[0][k])",
            "forall(range(0, len(result[1])), lambda k: in_list(result[1][k], data) and not (key in result[1][k]))",
            "len(result[0]) + len(result[1]) == len(data)",
            "forall(range(0, len(data)), lambda j: in_list(data[j], result[0]) or in_list(data[j], result[1]))",
        ],
        loops={0: {"inv": [
            "fresh(with_key) and fresh(without_key) and not (with_key is without_key)",
            "len(with_key) + len(without_key) == _i",
            "forall(range(0, len(with_key)), lambda k: in_list(with_key[k], data) and key in with_key[k])",
            "forall(range(0, len(without_key)), lambda k: in_list(without_key[k], data) and not (key in without_key[k]))",
            "forall(range(0, _i), lambda j: in_list(data[j], with_key) or in_list(data[j], without_key))",
        ]}},
        modifies=[],
        locals_types={"with_key": ROWS, "without_key": ROWS},
        props=["C08", "C02"])

    reg.contract(
        FU, "filter_data",
        params={"data": ROWS, "unbalance_values": List(STR), "formula_key": STR, "element_key": Ty("opt", STR), "min_count": INT, "max_count": INT},
        returns=ROWS, fresh_result=True,
        requires=["is_none(element_key)"],   # the only way the rule-based stage calls it
        ensures=[
            # exactly the rows whose 'Unbalance' label is one of the requested ones (rows without the label are dropped)
            "forall(range(0, len(result)), lambda k: in_list(result[k], data) and 'Unbalance' in result[k] and in_list(as_str(result[k]['Unbalance']), unbalance_values))",
            "forall(range(0, len(data)), lambda j: implies('Unbalance' in data[j] and is_str(data[j]['Unbalance']) and in_list(as_str(data[j]['Unbalance']), unbalance_values), in_list(data[j], result)))",
        ],
        loops={0: {"inv": [
            "fresh(filtered_data)",
            "forall(range(0, len(filtered_data)), lambda k: in_list(filtered_data[k], data) and 'Unbalance' in filtered_data[k] and in_list(as_str(filtered_data[k]['Unbalance']), unbalance_values))",
            "forall(range(0, _i), lambda j: implies('Unbalance' in data[j] and is_str(data[j]['Unbalance']) and in_list(as_str(data[j]['Unbalance']), unbalance_values), in_list(data[j], filtered_data)))",
        ]}},
        modifies=[],
        locals_types={"filtered_data": ROWS},
        props=["C08", "C02"])

    reg.classdecl("SyntheticRuleImputer", {"rule_dict": List(Obj("Rule")), "select": STR, "ranking": VAL})
    reg.contract(
        F, "SyntheticRuleImputer.parallel_impute",
        params={"self": Obj("SyntheticRuleImputer"), "missing_dict": List(ROW), "n_jobs": VAL}, returns=List(ROW), fresh_result=True,
        requires=["self.select == 'all'",
                  "forall(self.rule_dict, lambda rule: " + WF_RULE_TXT + " and forall(STR, lambda k: get0(rule['Composition'], k) == CompOf(rule['smiles'], k)))",
                  "forall(range(0, len(missing_dict)), lambda j: 'Diff_formula' in missing_dict[j] and is_ref(missing_dict[j]['Diff_formula']) and "
                  "allocated(as_comp(missing_dict[j]['Diff_formula'])) and 'Unbalance' in missing_dict[j] and 'reactants' in missing_dict[j] and "
                  "is_str(missing_dict[j]['reactants']) and 'products' in missing_dict[j] and is_str(missing_dict[j]['products']))"],
        ensures=[
            # one imputed copy per row, in order; the given rows are not modified (joblib read as an order-preserving map over single_impute)
            "len(result) == len(missing_dict)",
            "forall(range(0, len(result)), lambda j: fresh(result[j]))",
            "forall(range(0, len(missing_dict)), lambda j: same_map(missing_dict[j], old(mapof(missing_dict[j]))))",
        ],
        modifies=[],
        props=["C08", "C02"])
