"""Contracts for synrbl/SynUtils/batching.py: CacheManager over a ghost file system (C12).

Ghost state: FS.exists : path -> Bool, FS.content : path -> text (two heap arrays, readable in specifications as
fs_exists(p) / fs_content(p)).  Assumed externals (the operating system and the json module):
  open(p, 'w')     creates / truncates p                      open(p, 'r')   FileNotFoundError unless p exists
  json.dump(v, f)  the file of f holds DUMPS(v) afterwards    json.load(f)   LOADS(content) or ValueError (JSONDecodeError)
  os.replace(a, b) b gets a's content atomically, a is gone   os.path.join   an uninterpreted function of its arguments
  LOADS(DUMPS(v)) == v and DUMPS(v) is parseable (round trip of JSON-serialisable data)
A crash is a stop between two of these calls, or inside json.dump (where only the file being written holds a prefix).

Proved: write_cache leaves the final entry name untouched until the atomic rename (call-site assertions before every
file-system call), then the entry holds exactly DUMPS(data) and no other path except the temporary name changed;
load_cache returns LOADS of the stored text or raises ValueError for an unparseable entry; is_cached is membership in
the index built at construction."""
import z3
from pyvc.vtypes import *  # noqa
from pyvc.state import fresh_name, Unsupported

F = "synrbl/SynUtils/batching.py"
FILE = Obj("FileHandle")
PS, PB = z3.ArraySort(S, S), z3.ArraySort(S, B)


def _fs(st):
    return st.arr("FS.exists", PB), st.arr("FS.content", PS)


def register(reg):
    reg.classdecl("FileHandle", {"path": STR})
    reg.classdecl("CacheManager", {"_CacheManager__cache_dir": STR, "_CacheManager__cache_ext": STR, "_CacheManager__cache_refs": Dict(STR, STR)})
    reg.specfun("DUMPS", [VAL], STR)
    reg.specfun("LOADS", [STR], VAL)
    reg.specfun("PARSEABLE", [STR], BOOL)
    reg.specfun("PATHJOIN", [STR, STR], STR)

    def _json_axioms(eng):
        v = z3.Const("jv", Val)
        D = eng.uf("DUMPS", [Val], S)
        L = eng.uf("LOADS", [S], Val)
        P = eng.uf("PARSEABLE", [S], B)
        return [z3.ForAll([v], z3.And(L(D(v)) == v, P(D(v))), patterns=[D(v)])]
    reg.axiom_z3("json-round-trip", _json_axioms, "LOADS(DUMPS(v)) == v and DUMPS(v) is parseable, for the JSON-serialisable values the cache stores",
                 only=["CacheManager.write_cache", "CacheManager.load_cache"])

    @reg.specbuiltin("fs_exists")
    def fs_exists(eng, node, st, ctx):
        p = eng.coerce(eng.ev(node.args[0], st, ctx), STR, st)
        return mk_bool(_fs(st)[0][p.t])

    @reg.specbuiltin("fs_content")
    def fs_content(eng, node, st, ctx):
        p = eng.coerce(eng.ev(node.args[0], st, ctx), STR, st)
        return mk_str(_fs(st)[1][p.t])

    @reg.external("open")
    def _open(eng, st, ctx, args, kw, node):
        p = eng.coerce(args[0], STR, st)
        mode = args[1] if len(args) > 1 else kw.get("mode")
        if mode is None or not z3.is_string_value(mode.t):
            raise Unsupported("open() with a non-constant mode")
        m = mode.t.as_string()
        ex, co = _fs(st)
        if m == "w":
            st.set_arr("FS.exists", z3.Store(ex, p.t, z3.BoolVal(True)))
            st.set_arr("FS.content", z3.Store(co, p.t, z3.StringVal("")))
        elif m == "r":
            ctx.exc(z3.Not(ex[p.t]), "FileNotFoundError", node)
        else:
            raise Unsupported("open mode %r" % m)
        h = st.new_ref()
        st.set_field("FileHandle", "path", STR, h, p.t)
        return SV(Ty("cm"), py={"as": SV(FILE, h), "exit": None})

    @reg.external("json.dump")
    def _dump(eng, st, ctx, args, kw, node):
        v, f = args[0], args[1]
        if f.ty != FILE:
            raise Unsupported("json.dump to %r" % f.ty)
        path = st.field("FileHandle", "path", STR, f.t)
        ex, co = _fs(st)
        D = eng.uf("DUMPS", [Val], S)
        st.set_arr("FS.content", z3.Store(co, path, D(box(eng.coerce(v, VAL, st)))))
        return mk_none()

    @reg.external("json.load")
    def _load(eng, st, ctx, args, kw, node):
        f = args[0]
        if f.ty != FILE:
            raise Unsupported("json.load from %r" % f.ty)
        path = st.field("FileHandle", "path", STR, f.t)
        ex, co = _fs(st)
        L = eng.uf("LOADS", [S], Val)
        P = eng.uf("PARSEABLE", [S], B)
        ctx.exc(z3.Not(P(co[path])), "ValueError", node)
        return SV(VAL, L(co[path]))

    @reg.external("os.replace")
    def _replace(eng, st, ctx, args, kw, node):
        a, b = eng.coerce(args[0], STR, st), eng.coerce(args[1], STR, st)
        ex, co = _fs(st)
        ctx.exc(z3.Not(ex[a.t]), "FileNotFoundError", node)
        st.set_arr("FS.content", z3.Store(co, b.t, co[a.t]))
        st.set_arr("FS.exists", z3.Store(z3.Store(ex, b.t, z3.BoolVal(True)), a.t, a.t == b.t))
        return mk_none()

    @reg.external("os.path.join")
    def _join(eng, st, ctx, args, kw, node):
        if len(args) != 2:
            raise Unsupported("os.path.join with %d arguments" % len(args))
        a, b = eng.coerce(args[0], STR, st), eng.coerce(args[1], STR, st)
        return mk_str(eng.uf("PATHJOIN", [S, S], S)(a.t, b.t))

    ENTRY = "PATHJOIN(self._CacheManager__cache_dir, key + '.' + self._CacheManager__cache_ext)"
    UNTOUCHED = "fs_exists({E}) == old(fs_exists({E})) and fs_content({E}) == old(fs_content({E}))".format(E=ENTRY)
    reg.contract(
        F, "CacheManager.write_cache",
        params={"self": Obj("CacheManager"), "key": STR, "data": VAL}, returns=STR,
        ensures=[
            "result == key",
            # the entry holds exactly the serialised data [C12]
            "fs_exists({E}) and fs_content({E}) == DUMPS(data)".format(E=ENTRY),
            # nothing but the entry and its temporary name changed
            "forall(STR, lambda p: implies(p != {E} and p != {E} + '.tmp', fs_exists(p) == old(fs_exists(p)) and fs_content(p) == old(fs_content(p))))".format(E=ENTRY),
        ],
        # crash consistency: before each file-system call - in particular before the atomic rename - the entry under its
        # final name is exactly what it was on entry (absent, or the previous complete entry)
        sites={"open@1": [UNTOUCHED], "json.dump@1": [UNTOUCHED], "os.replace@1": [UNTOUCHED]},
        modifies=["*FS.exists", "*FS.content"],
        props=["C12"])

    reg.contract(
        F, "CacheManager.load_cache",
        params={"self": Obj("CacheManager"), "key": STR}, returns=VAL,
        requires=["key in self._CacheManager__cache_refs"],
        raises={"ValueError": "fs_exists(self._CacheManager__cache_refs[key]) and not PARSEABLE(fs_content(self._CacheManager__cache_refs[key]))",
                "FileNotFoundError": "not fs_exists(self._CacheManager__cache_refs[key])"},
        ensures=["result == LOADS(fs_content(self._CacheManager__cache_refs[key]))"],
        modifies=[],
        props=["C12"])

    reg.contract(
        F, "CacheManager.is_cached",
        params={"self": Obj("CacheManager"), "key": STR}, returns=BOOL, pure=False,
        ensures=["result == (key in self._CacheManager__cache_refs)"],
        modifies=[],
        props=["C12"])
