"""Contract for MCSMissingGraphAnalyzer.IterativeMCSReactionPairs (C10: "each reported common substructure is
attributed to the molecule it was computed for").

The function pairs every (sorted) reactant with the pattern found for it.  Proved for every reactant list and every
outcome of the RDKit searches (cancelled, raising, succeeding): the two returned lists have the same length and entry i
of the pattern list is either None or the molecule parsed from the SMARTS that the search for reactant i produced - a
cancelled or failed search leaves a None at its own position, so later patterns never shift to another molecule.

Assumed (RDKit): rdFMCS.FindMCS([a, b], params) / rdRascalMCES.FindMCES(a, b, params)[0] return a result object that
belongs to molecule a (ghost field 'of'), may be cancelled, may raise; Chem.MolFromSmarts(s) is a molecule whose ghost
pattern text is s; the substructure removal helpers do not touch the lists."""
import z3
from pyvc.vtypes import *  # noqa
from pyvc.state import fresh_name, Unsupported

F = "synrbl/SynMCSImputer/SubStructure/mcs_graph_detector.py"
MOL = Obj("RdMol")
RES = Obj("McsResult")
PAIR = Tuple(MOL, RES)


def register(reg):
    reg.classdecl("RdMol", {"smarts": STR})
    # smartsString, canceled, numAtoms are RDKit's; 'of' is ghost: the molecule the search was run for (first argument)
    reg.classdecl("McsResult", {"smartsString": STR, "canceled": BOOL, "numAtoms": INT, "of": MOL, "has_matches": BOOL})
    reg.classdecl("SubstructureAnalyzer", {})
    reg.classdecl("RWMol", {})

    def _result_for(eng, st, mol):
        r = st.new_ref()
        st.set_field("McsResult", "of", MOL, r, mol.t)
        # the pattern text of a search result is a function of the molecule searched for and of the search itself
        st.set_field("McsResult", "smartsString", STR, r, eng.uf("SMARTSFOR", [I, I], S)(mol.t, r))
        return SV(RES, r)

    @reg.external("rdFMCS.FindMCS")
    def find_mcs(eng, st, ctx, args, kw, node):
        mols = args[0]
        if mols.ty != List(MOL):
            raise Unsupported("FindMCS on %r" % mols.ty)
        ctx.exc(z3.Bool(fresh_name("findmcs_raises")), "Exception", node)
        first = eng.wrap(st.list_elems(mols.ty, mols.t)[0], MOL)
        return _result_for(eng, st, first)

    @reg.external("rdRascalMCES.FindMCES")
    def find_mces(eng, st, ctx, args, kw, node):
        a = args[0]
        if a.ty != MOL:
            raise Unsupported("FindMCES on %r" % a.ty)
        ctx.exc(z3.Bool(fresh_name("findmces_raises")), "Exception", node)
        res = _result_for(eng, st, a)
        return eng.new_list(st, RES, [res])

    @reg.external("rdFMCS.MCSParameters")
    def mcs_params(eng, st, ctx, args, kw, node):
        return SV(VAL, eng.fresh_const("params", VAL))

    @reg.external("rdRascalMCES.RascalOptions")
    def rascal_opts(eng, st, ctx, args, kw, node):
        return SV(VAL, eng.fresh_const("params", VAL))

    @reg.external("hasattr")
    def _hasattr(eng, st, ctx, args, kw, node):
        o = args[0]
        if o.ty != RES:
            raise Unsupported("hasattr on %r" % o.ty)
        return mk_bool(st.field("McsResult", "has_matches", BOOL, o.t))

    @reg.external("Chem.MolFromSmarts")
    def mol_from_smarts(eng, st, ctx, args, kw, node):
        s = eng.coerce(args[0], STR, st)
        r = st.new_ref()
        st.set_field("RdMol", "smarts", STR, r, s.t)
        return SV(MOL, r)

    @reg.external("Chem.RWMol")
    def rwmol(eng, st, ctx, args, kw, node):
        return SV(Obj("RWMol"), st.new_ref())

    @reg.external("Chem.SanitizeMol")
    def sanitize(eng, st, ctx, args, kw, node):
        ctx.exc(z3.Bool(fresh_name("sanitize_raises")), "Exception", node)
        return mk_none()

    reg.contract("rdkit", "SubstructureAnalyzer.__init__", params={"self": Obj("SubstructureAnalyzer")}, assumed=True, props=["C10"])
    reg.contract("rdkit", "SubstructureAnalyzer.identify_optimal_substructure",
                 params={"self": Obj("SubstructureAnalyzer"), "parent_mol": MOL, "child_mol": MOL, "maxNodes": VAL},
                 returns=List(INT), fresh_result=True, assumed=True, raises={"Exception": None},
                 note="substructure match of the pattern in the product: a list of atom indices (may raise)", props=["C10"])

    def _fresh_int_list(self, st):
        r = st.new_ref()
        n = z3.Int(fresh_name("n"))
        st.assume(n >= 0)
        st.set_list(List(INT), r, n, z3.Const(fresh_name("idx"), z3.ArraySort(I, I)))
        return SV(List(INT), r)

    def m_obj_GetSubstructMatch(self, base, node, st, ctx):
        self.args_of(node, st, ctx)
        ctx.exc(z3.Bool(fresh_name("match_raises")), "Exception", node)
        return _fresh_int_list(self, st)

    def m_obj_GetNumAtoms(self, base, node, st, ctx):
        n = self.uf("NUMATOMS", [I], I)(base.t)
        st.assume(n >= 0)
        return mk_int(n)

    def m_obj_RemoveAtom(self, base, node, st, ctx):
        self.args_of(node, st, ctx)
        ctx.exc(z3.Bool(fresh_name("removeatom_raises")), "Exception", node)
        return mk_none()

    def m_obj_GetMol(self, base, node, st, ctx):
        r = st.new_ref()
        return SV(MOL, r)

    def m_obj_atomMatches(self, base, node, st, ctx):
        return _fresh_int_list(self, st)

    reg.methods = getattr(reg, "methods", {})
    reg.methods.update({"m_obj_GetSubstructMatch": m_obj_GetSubstructMatch, "m_obj_GetNumAtoms": m_obj_GetNumAtoms,
                        "m_obj_RemoveAtom": m_obj_RemoveAtom, "m_obj_GetMol": m_obj_GetMol, "m_obj_atomMatches": m_obj_atomMatches})

    reg.specfun("SMARTSFOR", [MOL, INT], STR)
    PAT = "as_obj_RdMol({L}[{i}]).smarts"
    ATTR = ("exists(INT, lambda u: {P} == SMARTSFOR({M}, u) or {P} == split_at(SMARTSFOR({M}, u), '.', 0))")
    NN = "forall(range(0, len({L})), lambda k: not is_none({L}[k]))"
    reg.contract(
        F, "MCSMissingGraphAnalyzer.IterativeMCSReactionPairs",
        params={"reactant_mol_list": List(MOL), "product_mol": MOL, "params": VAL, "method": STR, "sort": STR,
                "remove_substructure": BOOL, "maxNodes": VAL, "substructure_optimize": BOOL},
        returns=Tuple(List(VAL), List(MOL)), fresh_result=True,
        # the two sort modes the search conditions of MCSSearch use ('Fragments' sorts bare molecules and cannot be unpacked by the loop)
        requires=["sort == 'MCIS' or sort == 'MCES'"],
        # the ranking searches before the loop are not guarded: the function may raise (single_mcs turns that into an issue text)
        raises={"Exception": None},
        ensures=[
            # a pattern list without a None entry (the only kind single_mcs accepts: MolToSmarts(None) raises) has exactly one entry per
            # sorted reactant: no pattern can have shifted to another molecule [C10]
            "len(result[0]) == len(result[1]) or exists(range(0, len(result[0])), lambda k: is_none(result[0][k]))",
        ],
        loops={0: {"inv": [
            "fresh(mcs_list) and len(mcs_list) >= _i",
            # either one entry per reactant so far, or a None entry exists (the last one, or an earlier one)
            "len(mcs_list) == _i or (len(mcs_list) >= 1 and is_none(mcs_list[len(mcs_list) - 1])) or "
            "exists(range(0, len(mcs_list) - 1), lambda k: is_none(mcs_list[k]))",
        ]}},
        modifies=[],
        locals_types={"mcs_list": List(VAL), "mcs_results": List(PAIR), "sorted_reactants": List(PAIR)},
        props=["C10"])
