"""Contracts for the rule selection in synrbl/SynMCSImputer/merge.py (C09: "first applicable rule wins").

expand_boundary, merge_boundaries and update_compound walk the rule lists in their configured order and apply the
first rule whose can_apply holds.  Proved for every rule list: the rule that is applied is applicable and no rule before
it in the list is; expand_boundary raises NoExpandRule exactly when no rule is applicable; merge_boundaries returns
None exactly then.

Assumed: Rule.get_all() returns the configured rule list (a fixed list per rule family), can_apply is a predicate of
the rule and the boundaries / compound (RDKit functional-group tests), apply builds the compound (RDKit)."""
import z3
from pyvc.vtypes import *  # noqa
from pyvc.state import fresh_name, Unsupported

F = "synrbl/SynMCSImputer/merge.py"
B = Obj("Boundary")
CMP = Obj("MCompound")


def register(reg):
    reg.classdecl("Boundary", {})
    reg.classdecl("MCompound", {"made_by": INT, "updated_by": INT})   # ghost: the rule that built / updated the compound
    for fam in ("ExpandRule", "MergeRule", "CompoundRule"):
        reg.classdecl(fam, {})

    def _rules(fam):
        def ext(eng, st, ctx, args, kw, node):
            r = eng.uf("RULES_" + fam, [], I)()
            st.assume(z3.And(0 <= r, r < st.alloc))
            n = st.list_len(List(Obj(fam)), r)
            e = st.list_elems(List(Obj(fam)), r)
            j = z3.Int(fresh_name("j"))
            st.assume(z3.ForAll([j], z3.Implies(z3.And(0 <= j, j < n), z3.And(0 <= e[j], e[j] < st.alloc)), patterns=[e[j]]))
            return SV(List(Obj(fam)), r)
        return ext
    for fam in ("ExpandRule", "MergeRule", "CompoundRule"):
        reg.externals[fam + ".get_all"] = _rules(fam)

    @reg.specbuiltin("rules_of")
    def rules_of(eng, node, st, ctx):
        fam = node.args[0].value
        return SV(List(Obj(fam)), eng.uf("RULES_" + fam, [], I)())

    reg.specfun("CAN_EXPAND", [Obj("ExpandRule"), B], BOOL)
    reg.specfun("CAN_MERGE", [Obj("MergeRule"), B, B], BOOL)
    reg.specfun("CAN_UPDATE", [Obj("CompoundRule"), CMP], BOOL)
    reg.contract("rules", "ExpandRule.can_apply", params={"self": Obj("ExpandRule"), "boundary": B}, returns=BOOL, pure=True, assumed=True,
                 ensures=["result == CAN_EXPAND(self, boundary)"], note="functional-group conditions of the expansion rule (RDKit)", props=["C09"])
    reg.contract("rules", "MergeRule.can_apply", params={"self": Obj("MergeRule"), "boundary1": B, "boundary2": B}, returns=BOOL, pure=True, assumed=True,
                 ensures=["result == CAN_MERGE(self, boundary1, boundary2)"], note="conditions of the merge rule on both boundaries (RDKit)", props=["C09"])
    reg.contract("rules", "CompoundRule.can_apply", params={"self": Obj("CompoundRule"), "compound": CMP}, returns=BOOL, pure=True, assumed=True,
                 ensures=["result == CAN_UPDATE(self, compound)"], note="conditions of the compound rule (RDKit)", props=["C09"])
    reg.contract("rules", "ExpandRule.apply", params={"self": Obj("ExpandRule")}, returns=CMP, fresh_result=True, assumed=True,
                 ensures=["result.made_by == REFOF(self)"], note="builds the compound of the expansion rule", props=["C09"])
    reg.contract("rules", "MergeRule.apply", params={"self": Obj("MergeRule"), "boundary1": B, "boundary2": B}, returns=CMP, fresh_result=True,
                 assumed=True, raises={"Exception": None}, ensures=["result.made_by == REFOF(self)"],
                 note="merges the two compounds at their boundaries (RDKit bond surgery; C09's conservation clauses are a bounded stand-in)", props=["C09"])
    reg.contract("rules", "CompoundRule.apply", params={"self": Obj("CompoundRule"), "compound": CMP}, assumed=True,
                 ensures=["compound.updated_by == REFOF(self)"], modifies=["compound"], note="marks / rewrites the compound", props=["C09"])

    @reg.specbuiltin("REFOF")
    def refof(eng, node, st, ctx):
        return mk_int(eng.ev(node.args[0], st, ctx).t)

    ER, MR, CR = "rules_of('ExpandRule')", "rules_of('MergeRule')", "rules_of('CompoundRule')"
    reg.contract(
        F, "expand_boundary", params={"boundary": B}, returns=CMP, fresh_result=True,
        raises={"NoExpandRule": "forall(range(0, len({R})), lambda j: not CAN_EXPAND({R}[j], boundary))".format(R=ER)},
        ensures=[
            # the compound was built by the first applicable expansion rule [C09]
            "exists(range(0, len({R})), lambda i: CAN_EXPAND({R}[i], boundary) and result.made_by == REFOF({R}[i]) and "
            "forall(range(0, i), lambda j: not CAN_EXPAND({R}[j], boundary)))".format(R=ER),
        ],
        loops={0: {"inv": ["is_none(compound)", "forall(range(0, _i), lambda j: not CAN_EXPAND({R}[j], boundary))".format(R=ER)]}},
        modifies=[],
        locals_types={"compound": Ty("opt", CMP)},
        props=["C09"])
    reg.contract(
        F, "merge_boundaries", params={"boundary1": B, "boundary2": B}, returns=Ty("opt", CMP), fresh_result=True,
        raises={"Exception": None},
        ensures=[
            "is_none(result) == forall(range(0, len({R})), lambda j: not CAN_MERGE({R}[j], boundary1, boundary2))".format(R=MR),
            "implies(not is_none(result), exists(range(0, len({R})), lambda i: CAN_MERGE({R}[i], boundary1, boundary2) and result.made_by == REFOF({R}[i]) and "
            "forall(range(0, i), lambda j: not CAN_MERGE({R}[j], boundary1, boundary2))))".format(R=MR),
        ],
        loops={0: {"inv": ["forall(range(0, _i), lambda j: not CAN_MERGE({R}[j], boundary1, boundary2))".format(R=MR)]}},
        modifies=[],
        props=["C09"])
    reg.contract(
        F, "update_compound", params={"compound": CMP},
        ensures=[
            # at most one compound rule is applied: the first applicable one
            "(forall(range(0, len({R})), lambda j: not CAN_UPDATE({R}[j], old(compound))) and compound.updated_by == old(compound.updated_by)) or "
            "exists(range(0, len({R})), lambda i: CAN_UPDATE({R}[i], compound) and compound.updated_by == REFOF({R}[i]) and "
            "forall(range(0, i), lambda j: not CAN_UPDATE({R}[j], compound)))".format(R=CR),
        ],
        loops={0: {"inv": ["forall(range(0, _i), lambda j: not CAN_UPDATE({R}[j], compound))".format(R=CR),
                           "compound.updated_by == old(compound.updated_by)"]}},
        modifies=["compound"],
        props=["C09"])
