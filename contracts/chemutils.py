"""Contracts for synrbl/SynUtils/chem_utils.py: normalize_smiles (C17).

What is proved about SynRBL's own code (RDKit's canonicalisation and the three regex helpers are assumed pure
functions of their argument - CANON, RMAP, RSTEREO, COUNT):
  * the molecules of a side are sorted *after* each has been brought to its normal form, and the sort key is
    injective on the tokens (key(x) == key(y) implies x == y), so - by the assumed contract of list.sort: the result of
    sorting with an injective key under a total order is determined by the multiset of elements - the order of the
    molecules in the input cannot leak into the result;
  * a single molecule is returned as CANON(RMAP(RSTEREO(s)));
  * a reaction 'a>>b' is returned as NORM(a) + '>>' + NORM(b), sides in place.
Idempotence and spelling invariance of CANON itself are RDKit's (bounded stand-in in checks/props/C17.py)."""
from pyvc.vtypes import *  # noqa

F = "synrbl/SynUtils/chem_utils.py"


def register(reg):
    for q, ret in (("remove_stereo_chemistry", STR), ("remove_atom_mapping", STR), ("canon_smiles", STR), ("count_atoms", INT)):
        reg.contract(F, q, params={"smiles": STR}, returns=ret, pure=True, assumed=True, props=["C17"],
                     note="regex / RDKit helper: a function of its argument")

    RS = "F('remove_stereo_chemistry', old(smiles))"
    reg.contract(
        F, "normalize_smiles", params={"smiles": STR}, returns=STR, pure=True,
        ensures=[
            # a single molecule: canonical form of the map-free, stereo-free string
            "implies(not contains({RS}, '>>') and not contains({RS}, '.'), "
            "result == F('canon_smiles', F('remove_atom_mapping', {RS})))".format(RS=RS),
            # a reaction: the two sides normalised separately and kept in place
            "implies(contains({RS}, '>>') and split_len({RS}, '>>') == 2, "
            "result == F('normalize_smiles', split_at({RS}, '>>', 0)) + '>>' + F('normalize_smiles', split_at({RS}, '>>', 1)))".format(RS=RS),
        ],
        sites={
            "token.sort@1": [
                "sort_key_injective",
                "smiles == {RS}".format(RS=RS),
                "len(token) == split_len(smiles, '.')",
                # what is sorted are the normal forms of the molecules, not their input spellings
                "forall(range(len(token)), lambda i: token[i] == F('normalize_smiles', split_at(smiles, '.', i)))",
            ],
        },
        props=["C17"])
