"""Contracts for the property classes of synrbl/SynMCSImputer/rules.py that ask "is this atom in functional group X"
(C16: "as used by the merge and expansion rules").

Proved: FunctionalGroupProperty.check answers exactly is_functional_group(source molecule, group, neighbour index) whenever the
boundary has a source molecule and a neighbour index - for every index, 0 included - and False otherwise; Boundary.promise_src
and promise_neighbor_index return the stored values or raise ValueError.  is_functional_group itself (graph matching) is a
bounded stand-in in checks/props/C16.py."""
import z3
from pyvc.vtypes import *  # noqa

F = "synrbl/SynMCSImputer/rules.py"
FS = "synrbl/SynMCSImputer/structure.py"
MOL = Obj("RdMol")


def register(reg):
    reg.classdecl("RdMol", {})
    reg.classdecl("Compound", {"src_mol": Ty("opt", MOL)})
    reg.classdecl("Boundary", {"compound": Obj("Compound"), "neighbor_index": Ty("opt", INT)})
    reg.classdecl("FunctionalGroupProperty", {})
    reg.specfun("ISFG", [MOL, VAL, INT], BOOL)

    @reg.external("fgutils.is_functional_group")
    def is_fg(eng, st, ctx, args, kw, node):
        mol, name, idx = args
        if mol.ty != MOL:
            raise Exception("is_functional_group on %r" % mol.ty)
        f = eng.uf("ISFG", [I, Val, I], B)
        return mk_bool(f(mol.t, box(eng.coerce(name, VAL, st)), eng.num(idx, st).t))

    reg.contract(FS, "Boundary.promise_src", params={"self": Obj("Boundary")}, returns=MOL,
                 raises={"ValueError": "is_none(self.compound.src_mol)"},
                 ensures=["result is self.compound.src_mol"], modifies=[], props=["C16"])
    reg.contract(FS, "Boundary.promise_neighbor_index", params={"self": Obj("Boundary")}, returns=INT,
                 raises={"ValueError": "is_none(self.neighbor_index)"},
                 ensures=["result == self.neighbor_index"], modifies=[], props=["C16"])
    reg.contract(
        F, "FunctionalGroupProperty.check", params={"self": Obj("FunctionalGroupProperty"), "value": Obj("Boundary"), "check_value": VAL}, returns=BOOL,
        ensures=[
            # the rules get the answer of the recogniser for exactly the neighbour atom of the boundary, whatever its index [C16]
            "implies(not is_none(value.compound.src_mol) and not is_none(value.neighbor_index), "
            "result == ISFG(value.compound.src_mol, check_value, value.neighbor_index))",
            "implies(is_none(value.compound.src_mol) or is_none(value.neighbor_index), result == False)",
        ],
        modifies=[], props=["C16"])
