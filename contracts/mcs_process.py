"""Contracts for synrbl/SynMCSImputer/SubStructure/mcs_process.py: single_mcs, single_mcs_safe, ensemble_mcs
(C11 containment of search failures and timeouts; C10 "results of different reactions are never mixed up").

Proved: a search that raises is turned into an issue text on its own record (single_mcs); a search that times out
is turned into an issue text on its own record (single_mcs_safe); every record carries the id of the reaction it was
computed for and ensemble_mcs returns, per condition, one record per reaction in the order of the reactions.

Assumed (outside this family): the RDKit search itself (MCSMissingGraphAnalyzer.fit: may raise anything, does not touch
the records), the thread pool (apply_async(f, args, kw).get(t) either returns f(*args, **kw) or raises
multiprocessing.TimeoutError; after a timeout the abandoned worker is assumed not to write the record any more -
concurrency is not modelled), joblib.Parallel read as an order-preserving map, time.time() an arbitrary number."""
import z3
from pyvc.vtypes import *  # noqa
from pyvc.state import fresh_name, Unsupported

F = "synrbl/SynMCSImputer/SubStructure/mcs_process.py"
ROWS = List(ROW)
MOLS = List(Obj("RdMol"))


def register(reg):
    reg.classdecl("RdMol", {})
    reg.classdecl("MCSMissingGraphAnalyzer", {})
    reg.classdecl("AsyncResult", {"value": ROW, "late": BOOL})
    reg.classdecl("ThreadPool", {})
    reg.contract("rdkit", "BlockLogs", params={}, returns=VAL, assumed=True, note="RDKit log silencer", props=[])
    reg.contract("synrbl/SynMCSImputer/SubStructure/mcs_graph_detector.py", "MCSMissingGraphAnalyzer.__init__",
                 params={"self": Obj("MCSMissingGraphAnalyzer")}, assumed=True, note="no state", props=["C11"])
    reg.contract("synrbl/SynMCSImputer/SubStructure/mcs_graph_detector.py", "MCSMissingGraphAnalyzer.fit",
                 params={"reaction_dict": VAL},
                 returns=Tuple(MOLS, MOLS, MOLS, VAL), fresh_result=True, assumed=True, raises={"Exception": None},
                 note="the RDKit substructure search: may raise anything; returns fresh lists; does not touch its argument or the result record",
                 props=["C11", "C10"])
    for q in ("rdmolfiles.MolToSmarts", "rdmolfiles.MolToSmiles"):
        reg.contract("rdkit", q, params={"mol": Obj("RdMol")}, returns=STR, pure=True, assumed=True, raises={"Exception": None},
                     note="RDKit writer: a string (may raise)", props=["C11"])

    KEEP = ("forall(STR, lambda k: implies(k != issue_col and k != 'mcs_results' and k != 'sorted_reactants', "
            "{M}[k] == old({M}[k]) and (k in {M}) == old(k in {M})))")
    reg.contract(
        F, "single_mcs",
        params={"data_dict": VAL, "mcs_data": ROW, "issue_col": STR}, returns=ROW,
        ensures=[
            "result is mcs_data",
            # whatever the search does (including raising), only the three result fields of this record change [C11]
            KEEP.format(M="mcs_data"),
            "forall(STR, lambda k: implies(old(k in mcs_data), k in mcs_data))",
        ],
        modifies=["mcs_data"],
        props=["C11", "C10"])

    # the thread pool: apply_async(single_mcs, (data_dict, mcs_data), kwargs) runs the callee (its contract applies to the record);
    # get(timeout) returns the callee's result or raises multiprocessing.TimeoutError
    @reg.external("multiprocessing.pool.ThreadPool")
    def thread_pool(eng, st, ctx, args, kw, node):
        return SV(Obj("ThreadPool"), st.new_ref())

    @reg.external("time.time")
    def time_time(eng, st, ctx, args, kw, node):
        return SV(REAL, z3.Const(fresh_name("now"), z3.RealSort()))

    reg.contract("threading", "ThreadPool.terminate", params={"self": Obj("ThreadPool")}, assumed=True, note="no effect on the records", props=["C11"])
    reg.contract(
        "threading", "ThreadPool.apply_async",
        params={"self": Obj("ThreadPool"), "func": VAL, "args": Tuple(VAL, ROW), "kwds": VAL}, returns=Obj("AsyncResult"),
        fresh_result=True, assumed=True,
        ensures=[
            # the job is single_mcs(data_dict, mcs_data, **kwargs): its contract, with the issue column taken from kwargs
            "result.value is args[1]",
            "forall(STR, lambda k: implies(k != 'issue' and k != 'mcs_results' and k != 'sorted_reactants', "
            "args[1][k] == old(args[1][k]) and (k in args[1]) == old(k in args[1])))",
            "forall(STR, lambda k: implies(old(k in args[1]), k in args[1]))",
        ],
        modifies=["args[1]"],
        note="ThreadPool.apply_async(single_mcs, (data_dict, mcs_data), kwargs): the worker applies single_mcs to the record (effects as in "
             "its proved contract, whenever they happen; the issue column is single_mcs's default 'issue' because single_mcs_safe does not forward its "
             "own issue_col and the search conditions carry none); sequential model - a worker still running after a timeout is assumed not to write any more",
        props=["C11"])
    reg.contract("threading", "AsyncResult.get", params={"self": Obj("AsyncResult"), "timeout": VAL}, returns=ROW, assumed=True,
                 raises={"TimeoutError": None}, ensures=["result is self.value"],
                 note="returns the job's result or raises multiprocessing.TimeoutError", props=["C11"])

    reg.contract(
        F, "single_mcs_safe",
        params={"data_dict": ROW, "id_col": STR, "issue_col": STR}, returns=ROW, fresh_result=True,
        requires=["id_col in data_dict", "id_col != issue_col and id_col != 'issue' and id_col != 'mcs_results' and id_col != 'sorted_reactants'",
                  "issue_col != 'mcs_results' and issue_col != 'sorted_reactants'"],
        ensures=[
            # the record belongs to the reaction it was computed for and always has an issue key, timeout or not [C10, C11]
            "id_col in result and result[id_col] == data_dict[id_col]",
            "issue_col in result and 'mcs_results' in result and 'sorted_reactants' in result",
        ],
        modifies=[],
        locals_types={"mcs_data": ROW},
        props=["C11", "C10"])

    REC = "result[c][j]"
    reg.contract(
        F, "ensemble_mcs",
        params={"data": ROWS, "conditions": List(VAL), "id_col": STR, "issue_col": STR}, returns=List(ROWS), fresh_result=True,
        requires=["forall(range(0, len(data)), lambda j: id_col in data[j])",
                  "id_col != issue_col and id_col != 'issue' and id_col != 'mcs_results' and id_col != 'sorted_reactants'",
                  "issue_col != 'mcs_results' and issue_col != 'sorted_reactants'"],
        ensures=[
            # one list per condition; in it one fresh record per reaction, in the order of the reactions, carrying that reaction's id [C10, C11]
            "len(result) == len(conditions)",
            "forall(range(0, len(result)), lambda c: len(result[c]) == len(data) and forall(range(0, len(data)), lambda j: "
            "fresh({R}) and id_col in {R} and {R}[id_col] == data[j][id_col] and issue_col in {R}))".format(R=REC),
        ],
        loops={
            0: {"inv": [
                "fresh(condition_results) and len(condition_results) == _i",
                "forall(range(0, len(condition_results)), lambda c: fresh(condition_results[c]) and not (condition_results[c] is condition_results) and len(condition_results[c]) == len(data))",
                "forall(range(0, len(condition_results)), lambda c: forall(range(0, len(data)), lambda j: fresh(condition_results[c][j])))",
                "forall(range(0, len(condition_results)), lambda c: forall(range(0, len(data)), lambda j: id_col in condition_results[c][j] and "
                "condition_results[c][j][id_col] == data[j][id_col] and issue_col in condition_results[c][j]))",
            ]},
            1: {"inv": [
                "fresh(all_results) and len(all_results) == _i and len(p_generator) == len(data)",
                "forall(range(0, len(all_results)), lambda j: all_results[j] is p_generator[j])",
                "forall(range(0, len(p_generator)), lambda j: fresh(p_generator[j]) and id_col in p_generator[j] and "
                "p_generator[j][id_col] == data[j][id_col] and issue_col in p_generator[j])",
            ]},
        },
        modifies=[],
        locals_types={"condition_results": List(ROWS), "all_results": ROWS},
        props=["C11", "C10", "C06"])
