"""Contracts for synrbl/SynProcessor/rsmi_comparator.py (C07, C01, C04, C14)."""
from pyvc.vtypes import *  # noqa

F = "synrbl/SynProcessor/rsmi_comparator.py"


def register(reg):
    reg.contract(
        F, "RSMIComparator.check_keys",
        params={"dict1": COMP, "dict2": COMP}, returns=BOOL, pure=True,
        ensures=["result == forall(STR, lambda k: implies(k in dict2, k in dict1))"],
        props=["C07"])

    # The four-way verdict measured against the two compositions read as total maps
    # (absent == 0).  Precondition (established by RSMIDecomposer.decompose): no stored
    # zero for an element key; 'Q' may be absent or present with a non-zero value.
    reg.contract(
        F, "RSMIComparator.compare_dicts",
        params={"reactant": COMP, "product": COMP}, returns=STR, pure=True,
        requires=["forall(STR, lambda k: implies(k in reactant, reactant[k] != 0))",
                  "forall(STR, lambda k: implies(k in product, product[k] != 0))"],
        ensures=[
            "result == 'Balance' or result == 'Products' or result == 'Reactants' or result == 'Both'",
            # exact characterisation of Balance [C01, C04, C07]
            "(result == 'Balance') == forall(STR, lambda k: get0(reactant, k) == get0(product, k))",
            # one-sided verdicts are sound [C07]
            "implies(result == 'Products', forall(STR, lambda k: implies(k in product, k in reactant and reactant[k] >= product[k])))",
            "implies(result == 'Reactants', forall(STR, lambda k: implies(k in reactant, k in product and reactant[k] <= product[k])))",
            # ... and never claimed for a balanced pair
            "implies(result == 'Products', exists(STR, lambda k: get0(reactant, k) != get0(product, k)))",
            "implies(result == 'Reactants', exists(STR, lambda k: get0(reactant, k) != get0(product, k)))",
            # completeness for charge-free, sign-definite compositions [C07]
            "implies(forall(STR, lambda k: get0(reactant, k) >= get0(product, k) and get0(product, k) >= 0)"
            " and exists(STR, lambda k: get0(reactant, k) != get0(product, k)), result == 'Products')",
            "implies(forall(STR, lambda k: get0(reactant, k) <= get0(product, k) and get0(reactant, k) >= 0)"
            " and exists(STR, lambda k: get0(reactant, k) != get0(product, k)), result == 'Reactants')",
        ],
        props=["C07", "C01", "C04", "C14"])

    reg.contract(
        F, "RSMIComparator.diff_dicts",
        params={"reactant": COMP, "product": COMP}, returns=COMP, fresh_result=True, pure=True,
        ensures=[
            # absolute difference on every key, nothing stored for a zero difference [C07]
            "forall(STR, lambda k: get0(result, k) == (get0(reactant, k) - get0(product, k) if get0(reactant, k) >= get0(product, k) else get0(product, k) - get0(reactant, k)) "
            "   or (not (k in reactant and k in product) and get0(result, k) == get0(reactant, k) + get0(product, k)))",
            "forall(STR, lambda k: implies(k in reactant and k in product, get0(result, k) == (get0(reactant, k) - get0(product, k) if get0(reactant, k) >= get0(product, k) else get0(product, k) - get0(reactant, k))))",
            "forall(STR, lambda k: implies(k in reactant and not (k in product), get0(result, k) == reactant[k]))",
            "forall(STR, lambda k: implies(k in product and not (k in reactant), get0(result, k) == product[k]))",
            "forall(STR, lambda k: (k in result) == (get0(result, k) != 0))",
            "forall(STR, lambda k: implies(not (k in reactant) and not (k in product), not (k in result)))",
        ],
        loops={
            0: {"inv": [
                "forall(STR, lambda k: implies(done(k) and k in product, get0(diff_dict, k) == (reactant[k] - product[k] if reactant[k] >= product[k] else product[k] - reactant[k])))",
                "forall(STR, lambda k: implies(done(k) and not (k in product), get0(diff_dict, k) == reactant[k]))",
                "forall(STR, lambda k: implies(not done(k), not (k in diff_dict)))",
                "forall(STR, lambda k: (k in diff_dict) == (get0(diff_dict, k) != 0))",
            ]},
            1: {"inv": [
                "forall(STR, lambda k: implies(k in reactant and k in product, get0(diff_dict, k) == (reactant[k] - product[k] if reactant[k] >= product[k] else product[k] - reactant[k])))",
                "forall(STR, lambda k: implies(k in reactant and not (k in product), get0(diff_dict, k) == reactant[k]))",
                "forall(STR, lambda k: implies(done(k) and not (k in reactant), get0(diff_dict, k) == product[k]))",
                "forall(STR, lambda k: implies(not (k in reactant) and not done(k), not (k in diff_dict)))",
                "forall(STR, lambda k: (k in diff_dict) == (get0(diff_dict, k) != 0))",
            ]},
        },
        locals_types={"diff_dict": COMP},
        props=["C07", "C08", "C14"])
    register_both_side(reg)
    register_both_side_fit(reg)


def register_both_side(reg):
    """BothSideReact.enforce_product_side / reverse_values_if_negative_except_Q (rsmi_both_side_process.py): the signed imbalance of the
    rows the comparator labels 'Both' (C08: the imbalance the rule matcher is asked to fill; C07)."""
    FB = "synrbl/SynProcessor/rsmi_both_side_process.py"
    reg.contract(
        FB, "BothSideReact.enforce_product_side",
        params={"react_dict": COMP, "product_dict": COMP}, returns=COMP, fresh_result=True, pure=True,
        ensures=[
            # the signed difference reactants - products on every key [C07, C08]
            "forall(STR, lambda k: get0(result, k) == get0(react_dict, k) - get0(product_dict, k))",
            "forall(STR, lambda k: implies(k in result, k in react_dict or k in product_dict))",
            "forall(STR, lambda k: implies(k in react_dict and k in result, result[k] != 0))",
        ],
        loops={
            0: {"inv": [
                "forall(STR, lambda k: implies(done(k), get0(diff_dict, k) == react_dict[k] - get0(product_dict, k) and (k in diff_dict) == (get0(diff_dict, k) != 0)))",
                "forall(STR, lambda k: implies(not done(k), not (k in diff_dict)))",
            ]},
            1: {"inv": [
                "forall(STR, lambda k: implies(k in react_dict, get0(diff_dict, k) == react_dict[k] - get0(product_dict, k) and (k in diff_dict) == (get0(diff_dict, k) != 0)))",
                "forall(STR, lambda k: implies(not (k in react_dict) and done(k), k in diff_dict and diff_dict[k] == 0 - product_dict[k]))",
                "forall(STR, lambda k: implies(not (k in react_dict) and not done(k), not (k in diff_dict)))",
            ]},
        },
        locals_types={"diff_dict": COMP},
        props=["C07", "C08"])
    reg.contract(
        FB, "BothSideReact.reverse_values_if_negative_except_Q",
        params={"diff_dict": COMP}, returns=Tuple(COMP, STR),
        ensures=[
            "result[1] == 'Reactants' or result[1] == 'Products' or result[1] == 'Both'",
            # a one-element imbalance (plus the charge entry) is turned to the side that lacks it; nothing else is touched
            "implies(result[1] == 'Products', result[0] is diff_dict and forall(STR, lambda k: implies(k in diff_dict and k != 'Q', diff_dict[k] >= 0)))",
            "implies(result[1] == 'Reactants', fresh(result[0]) and forall(STR, lambda k: (k in result[0]) == (k in diff_dict) and get0(result[0], k) == 0 - get0(diff_dict, k)))",
            "implies(result[1] == 'Both', result[0] is diff_dict)",
            "implies(result[1] != 'Both', 'Q' in diff_dict)",
        ],
        modifies=[],
        props=["C07", "C08"])


def register_both_side_fit(reg):
    FB = "synrbl/SynProcessor/rsmi_both_side_process.py"
    reg.classdecl("BothSideReact", {"react_dict": List(COMP), "product_dict": List(COMP), "unbalance": List(STR), "diff_formula": List(COMP)})
    reg.contract(
        FB, "BothSideReact.filter_list_by_indices", params={"data": List(COMP), "indices": List(INT)}, returns=List(COMP), fresh_result=True,
        requires=["forall(range(0, len(indices)), lambda a: 0 <= indices[a] and indices[a] < len(data))"],
        ensures=["len(result) == len(indices)", "forall(range(0, len(indices)), lambda a: result[a] is data[indices[a]])"],
        modifies=[], props=["C07", "C08"])
    U0 = "old(self.unbalance[j])"
    # what the index comprehension established: the strictly increasing positions of the 'Both' rows (nothing has been written yet)
    BI = [
        "forall(range(0, len(both_index)), lambda a: 0 <= both_index[a] and both_index[a] < len(self.unbalance) and self.unbalance[both_index[a]] == 'Both')",
        "forall(range(0, len(both_index)), lambda a: forall(range(0, a), lambda b: both_index[b] < both_index[a]))",
        "forall(range(0, len(self.unbalance)), lambda j: implies(self.unbalance[j] == 'Both', exists(range(0, len(both_index)), lambda a: both_index[a] == j)))",
        "forall(range(0, len(self.unbalance)), lambda j: self.unbalance[j] == old(self.unbalance[j]) and self.diff_formula[j] is old(self.diff_formula[j]))",
        "len(self.unbalance) == old(len(self.unbalance)) and len(self.diff_formula) == old(len(self.diff_formula)) and self.unbalance is old(self.unbalance) "
        "and self.diff_formula is old(self.diff_formula)",
        "old_objects_unchanged('L.ref') and old_objects_unchanged('L.str')",
    ]
    reg.contract(
        FB, "BothSideReact.fit", params={"self": Obj("BothSideReact"), "n_jobs": VAL},
        returns=Tuple(List(COMP), List(STR)),
        requires=["len(self.react_dict) == len(self.unbalance) and len(self.product_dict) == len(self.unbalance) and len(self.diff_formula) == len(self.unbalance)",
                  "not (self.diff_formula is self.react_dict) and not (self.diff_formula is self.product_dict)"],
        ensures=[
            "result[0] is self.diff_formula and result[1] is self.unbalance and len(self.unbalance) == old(len(self.unbalance)) and len(self.diff_formula) == old(len(self.diff_formula))",
            # rows the comparator did not label 'Both' keep their verdict and their imbalance [C08]
            "forall(range(0, len(self.unbalance)), lambda j: implies({U} != 'Both', self.unbalance[j] == {U} and self.diff_formula[j] is old(self.diff_formula[j])))".format(U=U0),
            # 'Both' rows get the signed imbalance reactants - products (or its negation when that single-element imbalance is negative)
            "forall(range(0, len(self.unbalance)), lambda j: implies({U} == 'Both', "
            "(self.unbalance[j] == 'Reactants' and forall(STR, lambda k: get0(self.diff_formula[j], k) == get0(self.product_dict[j], k) - get0(self.react_dict[j], k))) or "
            "(self.unbalance[j] != 'Reactants' and forall(STR, lambda k: get0(self.diff_formula[j], k) == get0(self.react_dict[j], k) - get0(self.product_dict[j], k)))))".format(U=U0),
        ],
        loops={
            0: {"inv": [
                "fresh(diff_dict_both)", "fresh(unbalance_both)", "len(diff_dict_both) == _i", "len(unbalance_both) == _i",
                "old_objects_unchanged('L.ref') and old_objects_unchanged('L.str')",
                "forall(range(0, _i), lambda a: (unbalance_both[a] == 'Reactants' and forall(STR, lambda k: get0(diff_dict_both[a], k) == 0 - get0(diff_dict[a], k))) or "
                "(unbalance_both[a] != 'Reactants' and diff_dict_both[a] is diff_dict[a]))",
                "forall(range(0, _i), lambda a: allocated(diff_dict_both[a]))",
            ]},
            1: {"inv": [
                "len(self.unbalance) == old(len(self.unbalance)) and len(self.diff_formula) == old(len(self.diff_formula)) and self.unbalance is old(self.unbalance) "
                "and self.diff_formula is old(self.diff_formula)",
                "forall(range(0, _i), lambda a: self.diff_formula[both_index[a]] is diff_dict_both[a] and self.unbalance[both_index[a]] == unbalance_both[a])",
                "forall(range(0, len(self.unbalance)), lambda j: implies(forall(range(0, _i), lambda a: both_index[a] != j), "
                "self.unbalance[j] == old(self.unbalance[j]) and self.diff_formula[j] is old(self.diff_formula[j])))",
            ]},
        },
        cuts={
            "diff_dict_both, unbalance_both =": BI + [
                "len(diff_dict) == len(both_index)",
                "forall(range(0, len(both_index)), lambda a: allocated(diff_dict[a]) and forall(STR, lambda k: get0(diff_dict[a], k) == "
                "get0(self.react_dict[both_index[a]], k) - get0(self.product_dict[both_index[a]], k)))",
            ],
            "for index, diff_new, unbalance_new in zip": BI + [
                "len(diff_dict_both) == len(both_index) and len(unbalance_both) == len(both_index)",
                "forall(range(0, len(both_index)), lambda a: allocated(diff_dict_both[a]) and ("
                "(unbalance_both[a] == 'Reactants' and forall(STR, lambda k: get0(diff_dict_both[a], k) == "
                "get0(self.product_dict[both_index[a]], k) - get0(self.react_dict[both_index[a]], k))) or "
                "(unbalance_both[a] != 'Reactants' and forall(STR, lambda k: get0(diff_dict_both[a], k) == "
                "get0(self.react_dict[both_index[a]], k) - get0(self.product_dict[both_index[a]], k)))))",
            ],
        },
        modifies=["self.diff_formula", "self.unbalance"],
        locals_types={"both_index": List(INT), "react_dict_both": List(COMP), "product_dict_both": List(COMP), "diff_dict": List(COMP),
                      "diff_dict_both": List(COMP), "unbalance_both": List(STR)},
        props=["C07", "C08"])
