"""tools/keep_seed.py <seed id> <property> <needs> <ran>  -- store a confirmed seeded change under /verif/seeded/<id>/"""
import json, os, shutil, sys
sid, prop, needs, ran = sys.argv[1:5]
d = "/verif/seeded/%s" % sid
os.makedirs(d, exist_ok=True)
src = sid.split("-")[0]
shutil.copy("/tmp/seed/%s.patch" % sid, d + "/patch.diff")
demo = "/tmp/seed/wt_%s/demo_%s.py" % (sid, sid)
shutil.copy(demo, d + "/" + os.path.basename(demo))
conf = open("/tmp/seed/confirm_%s.txt" % sid).read()
json.dump({"breaks_property": prop, "needs_to_manifest": needs, "what_was_run": ran, "confirmation_log": conf},
          open(d + "/meta.json", "w"), indent=1)
print("kept", d)
