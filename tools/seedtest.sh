#!/bin/bash
# tools/seedtest.sh <property id> <patch file> [tier]   -- apply a seeded change to /repo, run the check, undo it
PID=$1; PATCH=$2; TIER=${3:-quick}
cd /repo && git apply "$PATCH" || exit 9
cp /verif/evidence/$PID.json /tmp/evidence_$PID.keep 2>/dev/null
cd /verif && ./checks/run.py $PID $TIER 2>&1 | grep -E "VIOLATION|KNOWN|UNDECIDED|SUMMARY|CRASH" | cut -c1-330
echo "check exit: ${PIPESTATUS[0]}"
cp /tmp/evidence_$PID.keep /verif/evidence/$PID.json 2>/dev/null; rm -f /tmp/evidence_$PID.keep
cd /repo && git checkout -- . && git status --short | grep -v "^??" | head -3
