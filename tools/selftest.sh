#!/bin/bash
# tools/selftest.sh [tier]  -- every stored seeded change must turn its property's check from exit 0 into exit 1 (or 2 = undecided
# for changes that move code out of the verified subset *and* are missed by the bounded part: reported as MISSED).
# Applies each patch to /repo in turn and reverts it; do not run while anything else uses /repo.
TIER=${1:-quick}
cd /verif
OUT=seeded/selftest_summary.txt; mkdir -p out; : > $OUT
# the evidence files are rewritten by every run: keep the ones of the unchanged tree
rm -rf out/evidence_keep; cp -r evidence out/evidence_keep
for d in seeded/*/; do
  id=$(basename $d)
  prop=$(python3 -c "import json;print(json.load(open('$d/meta.json'))['breaks_property'])")
  (cd /repo && git apply /verif/$d/patch.diff) || { echo "$id $prop PATCH-DOES-NOT-APPLY" | tee -a $OUT; continue; }
  ./checks/run.py $prop $TIER > out/selftest_$id.log 2>&1; rc=$?
  (cd /repo && git checkout -- .)
  nviol=$(grep -c "^VIOLATION" out/selftest_$id.log); nund=$(grep -c "^UNDECIDED" out/selftest_$id.log)
  ded=$(grep "^VIOLATION" out/selftest_$id.log | grep -c "obligation fails")
  if [ $rc -eq 1 ]; then v=CAUGHT; else v=MISSED; fi
  echo "$id $prop exit=$rc $v violations=$nviol (deductive=$ded) undecided=$nund" | tee -a $OUT
done
rm -rf evidence; mv out/evidence_keep evidence
(cd /repo && git status --short | grep -v '^??')
