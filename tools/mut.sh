#!/bin/bash
# tools/mut.sh <file relative to repo> <python-replace-old> <python-replace-new> <contract modules> [quals...]
# applies a textual mutation on a scratch copy of the package and runs the deductive check on it
set -e
F=$1; OLD=$2; NEW=$3; MODS=$4; shift 4
D=$(mktemp -d /tmp/mutXXXX)
mkdir -p $D/synrbl && cp -r /repo/synrbl/. $D/synrbl/
python3 - "$D/$F" "$OLD" "$NEW" <<'PY'
import sys
p,old,new=sys.argv[1:4]
s=open(p).read()
assert old in s, "pattern not found"
open(p,'w').write(s.replace(old,new,1))
PY
cd /verif && SYNRBL_REPO=$D PYVC_FAST=1 timeout 900 .venv/bin/python -m pyvc.run $MODS "$@" 2>&1 | grep -E "failed|unknown|undecided|crash|proved" | cut -c1-220 | head -12
rm -rf $D
