#!/bin/bash
# tools/refresh_evidence.sh [tier] -- run every check on the current (unchanged) tree so that evidence/ describes it
TIER=${1:-quick}
cd /verif
for p in C01 C02 C03 C04 C05 C06 C07 C08 C09 C10 C11 C12 C13 C14 C15 C16 C17 C18 C19 C20; do
  ./checks/run.py $p $TIER 2>&1 | grep -E "^(VIOLATION|SUMMARY|UNDECIDED|CHECKER-CRASH)" | cut -c1-220
done
