#!/bin/bash
# tools/confirm_seed.sh <id>  -- confirm a seeded change in its scratch worktree: demo fails with / passes without, suite passes
ID=$1; WT=/tmp/seed/wt_$ID; OUT=/tmp/seed/confirm_$ID.txt
cd $WT || exit 9
{
git checkout -q -- synrbl; git apply /tmp/seed/$ID.patch && echo "patch applies to a clean checkout"
echo "== demo WITH change"; PYTHONPATH=$WT timeout 1200 /venv/bin/python demo_$ID.py > /tmp/seed/demo_with_$ID.log 2>&1; echo "exit $?"
git apply -R /tmp/seed/$ID.patch
echo "== demo WITHOUT change"; PYTHONPATH=$WT timeout 1200 /venv/bin/python demo_$ID.py > /tmp/seed/demo_without_$ID.log 2>&1; echo "exit $?"
git apply /tmp/seed/$ID.patch
echo "== test-suite WITH change"; PYTHONPATH=$WT timeout 3000 /venv/bin/python -m pytest -q -p no:cacheprovider --timeout=900 Test 2>&1 | tail -6
} > $OUT 2>&1
