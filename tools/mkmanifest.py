"""Regenerate /verif/MANIFEST.json from the table below (kept here so that it always validates)."""
import json, os
ROOT = os.path.dirname(os.path.dirname(os.path.abspath(__file__)))
props = [json.loads(l) for l in open(os.path.join(ROOT, "properties.jsonl"))]

CLAIMED = {
    "C07": dict(
        category="proof",
        text="Deductive: compare_dicts / diff_dicts / check_keys are verified for all dictionaries against their contracts "
             "(exact four-way verdict, absolute differences) from the real source by the pyvc VC generator + z3. "
             "Finite data obligation: the element table agrees with the periodic table for Z = 1..118 (exhaustive). "
             "decompose itself against RDKit's atom list is a bounded stand-in (all 118 elements, corpus molecules, mixtures).",
        note="trusted: pyvc encoding, z3/cvc5, RDKit as definition of the true composition; bounded parts are not counted as proved",
        technique="contract-based deductive verification (own VC generator over the real Python source, z3/cvc5) + exhaustive finite data obligations; bounded stand-in for RDKit-dependent code",
        design="5/C07"),
    "C08": dict(
        category="proof",
        text="Deductive: can_match, apply_rule (exact subtraction with ratio >= 1 on every key incl. Q), exit test, the recursive dfs "
             "(every recorded completion sums to the imbalance, by a path-sum invariant) and match are verified for all inputs and all "
             "rule lists satisfying the database well-formedness predicate; that predicate is discharged exhaustively for every record of "
             "both shipped databases (composition = true composition, explicit Q, positive counts; dihalogens hit the ban list). "
             "The real matcher is additionally run on enumerated imbalance vectors (bounded).",
        note="trusted: pyvc encoding, z3/cvc5, PathSum congruence axiom, assumed sub-list contracts of remove_overlapping_solutions/rank_solutions (checked at run time), RDKit",
        technique="contract-based deductive verification (own VC generator, loop/recursion invariants, z3) + exhaustive finite data obligations on the shipped rule databases",
        design="5/C08"),
}

checks = []
for p in props:
    pid = p["id"]
    if pid in CLAIMED:
        c = CLAIMED[pid]
        checks.append({
            "property_id": pid,
            "quick_cmd": "./checks/run.py %s quick" % pid,
            "thorough_cmd": "./checks/run.py %s thorough" % pid,
            "evidence_file": "/verif/evidence/%s.json" % pid,
            "replay_cmd_template": "./checks/run.py --replay {path}",
            "engine": "pyvc",
            "level_claimed": {"category": c["category"], "text": c["text"], "design_ref": "DESIGN.md section " + c["design"]},
            "level_note": c["note"],
            "technique": c["technique"],
        })
na = [{"property_id": p["id"], "reason": "check not built yet (framework under construction); see DESIGN.md section 5"}
      for p in props if p["id"] not in CLAIMED]
m = {
    "version": 1,
    "setup_cmd": "./setup.sh",
    "hooks": {"guard": "SYNRBL_VERIF",
              "enable": "no repository hook is used: checks read /repo's working tree (source via ast, runtime via the editable install) and patch dependencies in-process",
              "baseline_off_cmd": "cd /repo && /venv/bin/python -m pytest -ra -q -p no:cacheprovider --timeout=900 --continue-on-collection-errors",
              "source_commits": [], "add_only": True},
    "engines": [{"name": "pyvc", "path": "/verif/pyvc", "serves_properties": sorted(CLAIMED),
                 "kind_free_text": "Hoare-style VC generator over the real Python source (ast -> z3), sidecar contracts in /verif/contracts, z3 5.1 + bounded instantiation + cvc5; native replay / bounded stand-ins in /verif/checks"}],
    "checks": checks,
    "not_applicable": na,
    "notes": "fix commits in /repo are listed in /verif/known_findings.json ('fixed:' entries)",
}
json.dump(m, open(os.path.join(ROOT, "MANIFEST.json"), "w"), indent=1)
print("claimed", sorted(CLAIMED), "n/a", len(na))
