"""Regenerate /verif/MANIFEST.json from the table below (kept here so that it always validates)."""
import json, os
ROOT = os.path.dirname(os.path.dirname(os.path.abspath(__file__)))
props = [json.loads(l) for l in open(os.path.join(ROOT, "properties.jsonl"))]

CLAIMED = {
    "C07": dict(
        category="proof",
        text="Deductive: compare_dicts / diff_dicts / check_keys are verified for all dictionaries against their contracts "
             "(exact four-way verdict, absolute differences) from the real source by the pyvc VC generator + z3. "
             "Finite data obligation: the element table agrees with the periodic table for Z = 1..118 (exhaustive). "
             "decompose itself against RDKit's atom list is a bounded stand-in (all 118 elements, corpus molecules, mixtures).",
        note="trusted: pyvc encoding, z3/cvc5, RDKit as definition of the true composition; bounded parts are not counted as proved",
        technique="contract-based deductive verification (own VC generator over the real Python source, z3/cvc5) + exhaustive finite data obligations; bounded stand-in for RDKit-dependent code",
        design="5/C07"),
    "C08": dict(
        category="proof",
        text="Deductive: can_match, apply_rule (exact subtraction with ratio >= 1 on every key incl. Q), exit test, the recursive dfs "
             "(every recorded completion sums to the imbalance, by a path-sum invariant) and match are verified for all inputs and all "
             "rule lists satisfying the database well-formedness predicate; that predicate is discharged exhaustively for every record of "
             "both shipped databases (composition = true composition, explicit Q, positive counts; dihalogens hit the ban list). "
             "The real matcher is additionally run on enumerated imbalance vectors (bounded).",
        note="trusted: pyvc encoding, z3/cvc5, PathSum congruence axiom, assumed sub-list contracts of remove_overlapping_solutions/rank_solutions (checked at run time), RDKit",
        technique="contract-based deductive verification (own VC generator, loop/recursion invariants, z3) + exhaustive finite data obligations on the shipped rule databases",
        design="5/C08"),
    "C01": dict(
        category="proof",
        text="Deductive chain: decompose/compare contracts (compare_dicts exact Balance <=> equal total maps), Validator.check (a row becomes solved "
             "exactly when the comparison says Balance and the carbon label says balanced; reverts and frames), MCSSearch.find / MCSBasedMethod.run / "
             "predict frames (solved rows are not rewritten) are verified for all row lists from the real source; element table exhaustive for Z=1..118. "
             "Stages outside the subset (preprocess, RuleBasedMethod.run, joblib maps, post-processing) carry assumed contracts that are monitored at run "
             "time while the real Balancer runs on crafted + corpus reactions (bounded), where every solved row is re-checked with an independent oracle.",
        note="trusted: pyvc, z3/cvc5, RDKit as the definition of composition, assumed stage contracts (monitored, not proved); one open known finding (post-processing overwrite)",
        technique="contract-based deductive verification of the real functions (own VC generator, z3/cvc5) + run-time contract monitors and an independent oracle on bounded pipeline runs",
        design="5/C01"),
    "C02": dict(
        category="other",
        text="Deductive part: the MCS stage only appends ('prefix + .completion', impute_reaction / MCSBasedMethod.run) and Validator.check only reverts to "
             "input_reaction. The rule-based stage's string surgery is outside the verified subset, so the property as a whole is decided by a bounded stand-in: "
             "multiset containment of the given molecules on every row of real pipeline runs.",
        note="bounded for the rule-based / post-processing stages; one open known finding (marker surgery)",
        technique="contract-based deductive verification for the append-only stages; bounded stand-in (real pipeline + canonical multiset oracle) for the string surgery",
        design="5/C02"),
    "C03": dict(
        category="proof",
        text="Deductive: Validator.check with override_unsolved reverts every unsolved row to input_reaction and fills an empty issue; MCSSearch.find leaves every "
             "unsolved row with an issue key; impute_reaction refuses rows with an issue or reactant-side carbon deficit; MCSBasedMethod.run records the failure text "
             "and leaves the reaction alone on failure; predict touches only rows of the MCS method. Bounded: the row invariant on real pipeline runs.",
        note="trusted: pyvc, z3/cvc5, assumed stage contracts (monitored at run time)",
        technique="contract-based deductive verification of the row-level stage functions + run-time contract monitors on bounded pipeline runs",
        design="5/C03"),
    "C04": dict(
        category="proof",
        text="Deductive: compare_dicts says Balance exactly for equal total maps; Validator.check labels a row with its method exactly when newly solved; "
             "find / MCSBasedMethod.run / predict do not touch solved rows; RuleBasedMethod.run's assumed contract (rows comparing Balance keep their reaction) is monitored. "
             "Bounded: curated balanced reactions, their reversals, doubles and unions, ionic and heavy-element cases through the real Balancer.",
        note="trusted: pyvc, z3/cvc5, RDKit, assumed stage contracts (monitored)",
        technique="contract-based deductive verification + bounded pipeline runs with an independent balance oracle",
        design="5/C04"),
    "C13": dict(
        category="proof",
        text="Deductive: ConfidencePredictor.predict is verified for all row lists and thresholds: rows not attributed to the MCS method are untouched; a scored row "
             "gets a confidence in [0,1], stays solved exactly when confidence >= threshold and otherwise gets solved=False and the issue text naming the threshold. "
             "Independence of the confidence from the threshold is a syntactic frame obligation (the threshold is read in exactly two places). Bounded: threshold sweep "
             "at observed confidences and their float neighbours on the real Balancer.",
        note="trusted: pyvc, z3/cvc5, assumed contracts of the feature functions / xgboost (values in [0,1], function of the rows)",
        technique="contract-based deductive verification (loop invariant over the scored sub-list) + syntactic frame check + bounded threshold sweep",
        design="5/C13"),
    "C05": dict(
        category="other",
        text="Deductive: DataLoader.__next__ is verified for all sources and batch sizes (each batch is the next consecutive slice, a short batch stops the iteration). "
             "The rest of the chain (pandas filtering in preprocess, exception swallowing in __rebalance_batch) is outside the verified subset, so the property as a whole is decided by a "
             "bounded stand-in: lists of valid / repeated / malformed rows at every batch size 1..n+1 in four input forms against the exact expected row correspondence. "
             "Two open known findings (unparsable rows dropped; batch lost on a malformed string) are accepted only in their exact mechanism.",
        note="bounded; two open known findings", technique="contract-based deductive verification of the batching iterator + bounded stand-in on the real Balancer with an exact row-correspondence oracle",
        design="5/C05"),
    "C06": dict(
        category="other",
        text="Deductive: merge_stats adds key-wise over the union of keys for all dictionaries; MCSSearch.find attaches to every row the search result that carries the row's own id "
             "(id -> index plumbing) and Validator.check / predict / MCSBasedMethod.run are row-local by their verified postconditions. Scheduling is outside this technique, so the "
             "relational claim itself is a bounded stand-in: every reaction alone vs permuted / partitioned batches and worker counts 1, 2, 4, statistics summed over the partition.",
        note="bounded for the relational claim; joblib modelled as an order-preserving map", technique="contract-based deductive verification of the row-local stage functions and merge_stats + bounded alone-vs-grouped comparison",
        design="5/C06"),
    "C10": dict(
        category="other",
        text="Deductive: MCSSearch.find (every unsolved row gets the search record carrying its own id or keeps None) and the side-field synchrony established by Validator.check. "
             "The selection step is checked on the real get_largest_condition exhaustively over small result tables (all 1-reaction tables, 2-reaction tables sampled / exhaustive in the thorough tier); "
             "molecule multiset and substructure containment are checked on real search results, also with each substructure search cancelled in turn.",
        note="bounded for selection, multiset and containment; RDKit trusted", technique="contract-based deductive verification of the attribution plumbing + exhaustive small-table check of the real selection function + bounded search runs with cancelled searches",
        design="5/C10"),
    "C11": dict(
        category="fault_enumeration",
        text="Fault plans are injected in-process into the real pipeline: every single search job / fragment job raising or timing out (sampled in quick), all conditions of one reaction failing, random subsets, all-fail plans; "
             "each run is judged by the C01 / C03 row invariants, row count, and equality of the rows of reactions not hit. Deductive support: MCSBasedMethod.run catches every exception per row and records it; find leaves an issue on every unsolved row.",
        note="faults are outcomes (raise / timeout result), not real wall-clock races; n_jobs=1", technique="contract-based deductive verification of the containment code + enumerated fault injection on the real pipeline",
        design="5/C11"),
    "C12": dict(
        category="other",
        text="Bounded: histories of runs over a shared cache directory (same / overlapping batches, thresholds, batch sizes) and simulated crash points of the cache write, each compared with the uncached run; "
             "cache-key injectivity exhaustively over a small structured family of (batch, configuration) pairs; plus a syntactic obligation on which configuration fields reach the key.",
        note="real kills / fsync / concurrent writers not modelled", technique="bounded stand-in (run histories, crash-state simulation, exhaustive small key-injectivity test) + syntactic frame obligation",
        design="5/C12"),
    "C18": dict(
        category="other",
        text="Deductive: predict sets confident_cnt >= 0 and leaves other statistics alone; MCSBasedMethod.run keeps mcs_solved <= mcs_applied <= rows; merge_stats is additive. "
             "The equalities between counts and returned rows are a bounded stand-in: statistics vs rows on the real Balancer over batch sizes and thresholds incl. observed confidences and 1.0.",
        note="bounded for the count = rows equalities", technique="contract-based deductive verification of counter bounds and merge_stats + bounded stats-vs-rows comparison",
        design="5/C18"),
    "C09": dict(
        category="other",
        text="Bounded stand-in: every acyclic single bond of hand-picked (incl. isotope-labelled, charged, hetero-atom) and corpus molecules is cut; the open fragments are produced by the "
             "production path (find_missing_parts_pairs with the complementary fragment as common substructure, build_compounds) and given to the real merge. Two-fragment merges must give back "
             "the molecule unless a restriction rule is reported; single-fragment completions must equal fragment + the compound of the reported expansion rule, bonded, valid, without open attachment point.",
        note="bounded; ambiguous cuts (the kept fragment matches elsewhere) are skipped; RDKit trusted", technique="bounded stand-in on the real merge through the production fragment path",
        design="5/C09"),
    "C14": dict(
        category="other",
        text="Bounded stand-in for the relational claim: reactions (repeated molecules included) and random rewritings of them (atom order, kekulised / aromatic, atom maps, molecule order) through the real Balancer "
             "must get the same verdict and the same added molecules (modulo the redox reagent template). The composition contracts of C07 (verdict = function of the two compositions) are the deductive support.",
        note="bounded; one open known finding (marker-like molecules)", technique="bounded stand-in (real pipeline on equivalent spellings) supported by the C07 composition contracts",
        design="5/C14"),
    "C15": dict(
        category="other",
        text="Bounded stand-in: the real remove_atom_mapping against RDKit's map clearing on enumerated bracket atoms [iso sym chir H charge map] over 118 + 8 aromatic symbols in 13 bond contexts, "
             "re-emitted corpus molecules (maps, explicit bonds, kekulised, explicit H, random order), mapped reactions and inputs with up to 1500 mapped atoms.",
        note="bounded (regex replace-all chains are undecided in both string solvers); one open known finding (hypervalent explicit-H atoms)", technique="bounded stand-in against an RDKit oracle",
        design="5/C15"),
    "C16": dict(
        category="other",
        text="Bounded stand-in: is_functional_group under atom renumbering (all permutations for <= 4 atoms, random beyond) for every non-carbon atom and all 25 groups; pattern_match at every atom against "
             "RDKit's substructure search for all pattern / anti-pattern structures, on a hand-picked group / ring family and corpus molecules.",
        note="bounded; one open known finding (ring closure never checked / wrap-around in small rings)", technique="bounded stand-in against RDKit substructure search and renumbering",
        design="5/C16"),
    "C17": dict(
        category="other",
        text="Bounded stand-in: normalisation is idempotent and invariant under permutation and re-spelling, similarity 1 for such variants, symmetric and within [0,1] for random pairs and all three methods, "
             "on corpus reactions and reactions built from isomer families whose canonical SMILES are anagrams.",
        note="bounded; RDKit canonicalisation trusted", technique="bounded stand-in on the real normalize_smiles / wc_similarity",
        design="5/C17"),
    "C19": dict(
        category="proof",
        text="Deductive: the database invariant (every recorded composition with explicit Q is the composition of its SMILES; formulas pairwise distinct; SMILES pairwise distinct) is proved inductive over "
             "add_entry (appends exactly the new entry or raises ValueError leaving the database unchanged, exactly for duplicates / invalid SMILES), add_entries (every entry added or reported) and remove_entry "
             "(deletes exactly the named entry) for all databases and arguments, so it holds after every operation sequence. Finite data obligation: the shipped databases against that invariant (3 open data findings). "
             "Bounded: all operation sequences of length 2 (3 in the thorough tier) and random longer ones on the real manager.",
        note="trusted: pyvc, z3/cvc5, assumed contracts of decompose (fresh dictionary holding DEC(smiles)) and is_valid_smiles", technique="contract-based deductive verification: inductive data-structure invariant over the real edit operations + exhaustive finite data obligations",
        design="5/C19"),
    "C20": dict(
        category="other",
        text="Bounded stand-in: the real MoleculeStandardizer on enumerated enol / gem-diol / hemiketal families, plain molecules, explicit-H / isotope / atom-map spellings, mixtures and random atom orders: "
             "parsable result, same composition, no exception or error text, idempotent. Four open known findings are accepted only for their input classes (index-adjacency heuristic, alkoxy oxygen first, explicit hydrogens on the site oxygen, several sites / charged).",
        note="bounded; RDKit implicit-hydrogen recomputation is outside any contract here", technique="bounded stand-in on the real standardiser with a composition oracle",
        design="5/C20"),
}

checks = []
for p in props:
    pid = p["id"]
    if pid in CLAIMED:
        c = CLAIMED[pid]
        checks.append({
            "property_id": pid,
            "quick_cmd": "./checks/run.py %s quick" % pid,
            "thorough_cmd": "./checks/run.py %s thorough" % pid,
            "evidence_file": "/verif/evidence/%s.json" % pid,
            "replay_cmd_template": "./checks/run.py --replay {path}",
            "engine": "pyvc",
            "level_claimed": {"category": c["category"], "text": c["text"], "design_ref": "DESIGN.md section " + c["design"]},
            "level_note": c["note"],
            "technique": c["technique"],
        })
na = [{"property_id": p["id"], "reason": "check not built yet (framework under construction); see DESIGN.md section 5"}
      for p in props if p["id"] not in CLAIMED]
m = {
    "version": 1,
    "setup_cmd": "./setup.sh",
    "hooks": {"guard": "SYNRBL_VERIF",
              "enable": "no repository hook is used: checks read /repo's working tree (source via ast, runtime via the editable install) and patch dependencies in-process",
              "baseline_off_cmd": "cd /repo && /venv/bin/python -m pytest -ra -q -p no:cacheprovider --timeout=900 --continue-on-collection-errors",
              "source_commits": [], "add_only": True},
    "engines": [{"name": "pyvc", "path": "/verif/pyvc", "serves_properties": sorted(CLAIMED),
                 "kind_free_text": "Hoare-style VC generator over the real Python source (ast -> z3), sidecar contracts in /verif/contracts, z3 5.1 + bounded instantiation + cvc5; native replay / bounded stand-ins in /verif/checks"}],
    "checks": checks,
    "not_applicable": na,
    "notes": "fix commits in /repo are listed in /verif/known_findings.json ('fixed:' entries)",
}
json.dump(m, open(os.path.join(ROOT, "MANIFEST.json"), "w"), indent=1)
print("claimed", sorted(CLAIMED), "n/a", len(na))
