"""Regenerate /verif/MANIFEST.json from the table below (kept here so that it always validates)."""
import json, os
ROOT = os.path.dirname(os.path.dirname(os.path.abspath(__file__)))
props = [json.loads(l) for l in open(os.path.join(ROOT, "properties.jsonl"))]

CLAIMED = json.load(open(os.path.join(ROOT, "tools", "claimed.json")))  # per property: category, text, note, technique, design

checks = []
for p in props:
    pid = p["id"]
    if pid in CLAIMED:
        c = CLAIMED[pid]
        checks.append({
            "property_id": pid,
            "quick_cmd": "./checks/run.py %s quick" % pid,
            "thorough_cmd": "./checks/run.py %s thorough" % pid,
            "evidence_file": "/verif/evidence/%s.json" % pid,
            "replay_cmd_template": "./checks/run.py --replay {path}",
            "engine": "pyvc",
            "level_claimed": {"category": c["category"], "text": c["text"], "design_ref": "DESIGN.md section " + c["design"]},
            "level_note": c["note"],
            "technique": c["technique"],
        })
na = [{"property_id": p["id"], "reason": "check not built yet (framework under construction); see DESIGN.md section 5"}
      for p in props if p["id"] not in CLAIMED]
m = {
    "version": 1,
    "setup_cmd": "./setup.sh",
    "hooks": {"guard": "SYNRBL_VERIF",
              "enable": "no repository hook is used: checks read /repo's working tree (source via ast, runtime via the editable install) and patch dependencies in-process",
              "baseline_off_cmd": "cd /repo && /venv/bin/python -m pytest -ra -q -p no:cacheprovider --timeout=900 --continue-on-collection-errors",
              "source_commits": [], "add_only": True},
    "engines": [{"name": "pyvc", "path": "/verif/pyvc", "serves_properties": sorted(CLAIMED),
                 "kind_free_text": "Hoare-style VC generator over the real Python source (ast -> z3), sidecar contracts in /verif/contracts, z3 5.1 + bounded instantiation + cvc5; native replay / bounded stand-ins in /verif/checks"}],
    "checks": checks,
    "not_applicable": na,
    "notes": "fix commits in /repo are listed in /verif/known_findings.json ('fixed:' entries)",
}
json.dump(m, open(os.path.join(ROOT, "MANIFEST.json"), "w"), indent=1)
print("claimed", sorted(CLAIMED), "n/a", len(na))
