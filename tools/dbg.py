"""debug one obligation: tools/dbg.py <contract modules> <qualname> <obligation key> [trace substring]"""
import sys, time, z3
sys.path.insert(0, "/verif")
from pyvc.run import load_registry
from pyvc.engine import Engine
from pyvc.binst import bounded_check
mods, qual, key = sys.argv[1].split(","), sys.argv[2], sys.argv[3]
tr = sys.argv[4] if len(sys.argv) > 4 else None
reg = load_registry(mods)
eng = Engine(reg)
r = eng.verify_function(reg.contracts[qual])
print(r.status, r.reason)
obs = [o for o in r.obligations if o.key == key and (tr is None or any(tr in t for t in o.trace))]
for ob in obs:
    s = z3.Solver(); s.set("timeout", 5000); s.add(*ob.hyps); s.add(z3.Not(ob.goal)); t = time.time(); res = s.check()
    print(ob.kind, ob.trace, "z3:", res, round(time.time() - t, 2))
    if res == z3.unsat:
        continue
    br, m, info = bounded_check(ob.hyps, ob.goal, timeout_ms=20000)
    print("BI:", br, info)
    if "-v" in sys.argv:
        for i, h in enumerate(ob.hyps): print(i, h)
        print("GOAL", ob.goal)
    if m is not None:
        for d in sorted(m.decls(), key=lambda d: d.name()):
            if d.arity() == 0: print("  ", d.name(), "=", str(m[d])[:200].replace("\n", " "))
    break
