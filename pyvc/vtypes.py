"""Static types and symbolic values used by the pyvc verification-condition generator."""
import z3

# --------------------------------------------------------------------------- sorts
I = z3.IntSort()
B = z3.BoolSort()
S = z3.StringSort()
R = z3.RealSort()

_Val = z3.Datatype("Val")
_Val.declare("VNone")
_Val.declare("VBool", ("b", B))
_Val.declare("VInt", ("i", I))
_Val.declare("VReal", ("r", R))
_Val.declare("VStr", ("s", S))
_Val.declare("VRef", ("ref", I))
Val = _Val.create()


_TUPLE_SORTS = {}  # tag -> (sort, constructor, [accessors])


def tuple_parts(ty):
    ty.sort()
    return _TUPLE_SORTS[ty.tag()]


class Ty:
    """int | bool | str | real | none | val | dict(K,V) | list(T) | tuple(T..) | obj(name) | set(T) | fun"""

    def __init__(self, kind, *args):
        self.kind = kind
        self.args = tuple(args)

    def __eq__(self, o):
        return isinstance(o, Ty) and self.kind == o.kind and self.args == o.args

    def __hash__(self):
        return hash((self.kind, self.args))

    def __repr__(self):
        if not self.args:
            return self.kind
        return "%s[%s]" % (self.kind, ",".join(map(repr, self.args)))

    @property
    def is_ref(self):
        return self.kind in ("dict", "list", "obj")

    def sort(self):
        k = self.kind
        if k == "int":
            return I
        if k == "bool":
            return B
        if k == "str":
            return S
        if k == "real":
            return R
        if k == "val":
            return Val
        if k in ("dict", "list", "obj"):
            return I
        if k == "set":
            return z3.ArraySort(self.args[0].sort(), B)
        if k == "tuple":  # tuples stored in lists: a z3 tuple sort over the component sorts
            key = self.tag()
            if key not in _TUPLE_SORTS:
                _TUPLE_SORTS[key] = z3.TupleSort("T_" + key, [a.sort() for a in self.args])
            return _TUPLE_SORTS[key][0]
        if k == "map":  # pure (value) map: only for spec functions
            raise TypeError("map has two sorts")
        raise TypeError("no sort for %r" % self)

    def tag(self):
        """name used in heap-array names"""
        if not self.args:
            return self.kind
        if self.kind == "obj":
            return "obj_" + self.args[0]
        if self.kind in ("dict", "list"):
            return "ref"  # all references are Int; element sorts coincide
        return self.kind + "_" + "_".join(a.tag() for a in self.args)


INT = Ty("int")
BOOL = Ty("bool")
STR = Ty("str")
REAL = Ty("real")
NONE = Ty("none")
VAL = Ty("val")
FUN = Ty("fun")


def Dict(k, v):
    return Ty("dict", k, v)


def List(t):
    return Ty("list", t)


def Tuple(*ts):
    return Ty("tuple", *ts)


def Obj(name):
    return Ty("obj", name)


def SetT(t):
    return Ty("set", t)


ROW = Dict(STR, VAL)
COMP = Dict(STR, INT)


class SV:
    """A symbolic value: static type, z3 term (or python payload), optional is-None flag."""

    __slots__ = ("ty", "t", "none", "items", "py")

    def __init__(self, ty, t=None, none=None, items=None, py=None):
        self.ty = ty
        self.t = t
        self.none = none  # z3 Bool: value is None (only meaningful when not a VAL)
        self.items = items  # for tuples: list of SV
        self.py = py  # python payload (functions, modules, constants)

    def __repr__(self):
        return "SV(%r,%s%s)" % (self.ty, self.t if self.items is None else self.items,
                                "" if self.none is None else ",none=%s" % self.none)


def mk_int(x):
    return SV(INT, z3.IntVal(x) if isinstance(x, int) else x)


def mk_bool(x):
    return SV(BOOL, z3.BoolVal(x) if isinstance(x, bool) else x)


def mk_str(x):
    return SV(STR, z3.StringVal(x) if isinstance(x, str) else x)


def mk_real(x):
    return SV(REAL, z3.RealVal(x) if isinstance(x, (int, float)) else x)


def mk_none():
    return SV(NONE, None, none=z3.BoolVal(True))


def mk_tuple(items):
    return SV(Tuple(*[i.ty for i in items]), None, items=list(items))


def tuple_term(sv):
    """z3 term of a tuple value whose components are plain scalars / references (for storing it in a list)"""
    if sv.t is not None:
        return sv.t
    _, cons, _ = tuple_parts(sv.ty)
    return cons(*[i.t for i in sv.items])


def tuple_from_term(term, ty):
    _, _, accs = tuple_parts(ty)
    return SV(ty, term, items=[SV(t, a(term)) for t, a in zip(ty.args, accs)])


def box(sv):
    """SV -> z3 term of sort Val"""
    k = sv.ty.kind
    if k == "val":
        return sv.t
    if k == "none":
        return Val.VNone
    if k == "int":
        inner = Val.VInt(sv.t)
    elif k == "bool":
        inner = Val.VBool(sv.t)
    elif k == "str":
        inner = Val.VStr(sv.t)
    elif k == "real":
        inner = Val.VReal(sv.t)
    elif sv.ty.is_ref:
        inner = Val.VRef(sv.t)
    else:
        raise TypeError("cannot box %r" % sv.ty)
    if sv.none is not None:
        return z3.If(sv.none, Val.VNone, inner)
    return inner


def unbox(valterm, ty):
    """z3 Val term -> SV of static type ty (None-ness carried over)."""
    k = ty.kind
    isnone = Val.is_VNone(valterm)
    if k == "val":
        return SV(VAL, valterm)
    if k == "int":
        return SV(INT, Val.i(valterm), none=isnone)
    if k == "bool":
        return SV(BOOL, Val.b(valterm), none=isnone)
    if k == "str":
        return SV(STR, Val.s(valterm), none=isnone)
    if k == "real":
        return SV(REAL, Val.r(valterm), none=isnone)
    if ty.is_ref:
        return SV(ty, Val.ref(valterm), none=isnone)
    if k == "none":
        return mk_none()
    raise TypeError("cannot unbox to %r" % ty)


def val_is(valterm, ty):
    k = ty.kind
    return {"int": Val.is_VInt, "bool": Val.is_VBool, "str": Val.is_VStr, "real": Val.is_VReal,
            "none": Val.is_VNone}.get(k, Val.is_VRef)(valterm)
