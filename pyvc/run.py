"""Verify a set of contracts: generate obligations per function and discharge them in a process pool."""
import sys, time, json, os
from concurrent.futures import ProcessPoolExecutor
from .engine import Engine, discharge, check_satisfiable
from .registry import Registry


def load_registry(mods):
    import importlib
    reg = Registry()
    for m in mods:
        importlib.import_module(m).register(reg)
    return reg


def _work(args):
    mods, qual, shard = args
    reg = load_registry(mods)
    eng = Engine(reg)
    c = reg.contracts[qual]
    try:
        res = eng.verify_function(c)
    except Exception as e:  # engine crash: reported as such, never as a verdict
        import traceback
        return {"qualname": qual, "file": c.file, "status": "crash", "reason": traceback.format_exc()[-1500:], "sha": "",
                "paths": 0, "dropped": [], "notes": [], "called": [], "obligations": []}
    out = {"qualname": qual, "file": c.file, "status": res.status, "reason": res.reason, "sha": res.sha,
           "paths": res.paths, "dropped": res.dropped, "notes": res.notes, "called": res.called, "obligations": []}
    if res.status == "ok":
        vac = check_satisfiable(eng.facts + eng.requires_pc)
        out["requires_sat"] = vac
        fast = bool(os.environ.get("PYVC_FAST"))
        for n, ob in enumerate(res.obligations):
            if shard is not None and n % shard[1] != shard[0]:
                continue
            if fast:
                discharge(ob, timeout_ms=2000, use_cvc5=False, long_ms=1)
            else:
                discharge(ob)
            out["obligations"].append({"id": ob.oid, "key": ob.key, "kind": ob.kind, "line": ob.lineno,
                                       "verdict": ob.verdict, "backend": ob.backend, "time": round(ob.time, 3),
                                       "desc": ob.desc, "trace": ob.trace[-6:], "model": ob.model})
    return out


def verify(mods, quals, jobs=16):
    t0 = time.time()
    reg = load_registry(mods)
    tasks = []
    for q in quals:
        k = getattr(reg.contracts[q], "shards", 1)
        if k <= 1:
            tasks.append((mods, q, None))
        else:
            tasks += [(mods, q, (i, k)) for i in range(k)]
    with ProcessPoolExecutor(max_workers=min(jobs, max(1, len(tasks)))) as ex:
        parts = list(ex.map(_work, tasks))
    # merge the shards of one function
    merged = {}
    for r in parts:
        m = merged.get(r["qualname"])
        if m is None:
            merged[r["qualname"]] = r
        else:
            m["obligations"].extend(r["obligations"])
            if r["status"] != "ok":
                m["status"], m["reason"] = r["status"], r["reason"]
    results = [merged[q] for q in quals]
    return results, time.time() - t0


if __name__ == "__main__":
    mods = sys.argv[1].split(",")
    reg = load_registry(mods)
    quals = sys.argv[2:] or [q for q, c in reg.contracts.items() if not c.assumed]
    results, dt = verify(mods, quals)
    for r in results:
        print("==", r["qualname"], r["status"], r["reason"], "paths", r["paths"], "requires", r.get("requires_sat"))
        for o in r["obligations"]:
            if o["verdict"] != "proved" or os.environ.get("V"):
                print("   ", o["verdict"], o["id"], "L%s" % o["line"], o["time"], o["desc"][:150], o["trace"])
                if o["verdict"] == "failed" and os.environ.get("M"):
                    print("      model:", o["model"])
        n = len(r["obligations"]); p = sum(o["verdict"] == "proved" for o in r["obligations"])
        print("   proved %d/%d" % (p, n))
    print("wall %.1fs" % dt)
