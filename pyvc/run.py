"""Verify a set of contracts: generate obligations per function, discharge each obligation in a freshly
forked child process (so a verdict does not depend on which obligations were solved before it)."""
import sys, time, json, os
if os.environ.get("PYTHONHASHSEED") != "0":  # deterministic formulas: no hash-order dependence
    os.environ["PYTHONHASHSEED"] = "0"
    if __name__ == "__main__":
        os.execv(sys.executable, [sys.executable, "-m", "pyvc.run"] + sys.argv[1:])
from concurrent.futures import ProcessPoolExecutor
from .engine import Engine, discharge, check_satisfiable
from .registry import Registry


def load_registry(mods):
    import importlib
    reg = Registry()
    for m in mods:
        importlib.import_module(m).register(reg)
    return reg


_OBS = []


def _solve_one(n):
    ob = _OBS[n]
    if os.environ.get("PYVC_FAST"):
        discharge(ob, timeout_ms=2000, use_cvc5=False, long_ms=1)
    else:
        discharge(ob)
    return n, {"id": ob.oid, "key": ob.key, "kind": ob.kind, "line": ob.lineno, "verdict": ob.verdict,
               "backend": ob.backend, "time": round(ob.time, 3), "desc": ob.desc, "trace": ob.trace[-6:],
               "model": ob.model}


def _work(args):
    global _OBS
    mods, qual, inner = args
    reg = load_registry(mods)
    eng = Engine(reg)
    c = reg.contracts[qual]
    try:
        res = eng.verify_function(c)
    except Exception:  # engine crash: reported as such, never as a verdict
        import traceback
        return {"qualname": qual, "file": c.file, "status": "crash", "reason": traceback.format_exc()[-1500:], "sha": "",
                "paths": 0, "dropped": [], "notes": [], "called": [], "obligations": []}
    out = {"qualname": qual, "file": c.file, "status": res.status, "reason": res.reason, "sha": res.sha,
           "paths": res.paths, "dropped": res.dropped, "notes": res.notes, "called": res.called, "obligations": []}
    if res.status == "ok":
        out["requires_sat"] = check_satisfiable(eng.facts + eng.requires_pc)
        from .engine import exits_reachable
        out["exits"] = exits_reachable(eng.facts, getattr(eng, "exit_pcs", []))
        _OBS = res.obligations
        import multiprocessing as mp
        ctx = mp.get_context("fork")
        with ctx.Pool(processes=max(1, min(inner, len(_OBS))), maxtasksperchild=1) as pool:
            got = pool.map(_solve_one, range(len(_OBS)), chunksize=1)
        got.sort()
        out["obligations"] = [g[1] for g in got]
    return out


def verify(mods, quals, jobs=16):
    t0 = time.time()
    outer = max(1, min(len(quals), 4))
    inner = max(2, jobs // outer)
    tasks = [(mods, q, inner) for q in quals]
    with ProcessPoolExecutor(max_workers=outer) as ex:
        results = list(ex.map(_work, tasks))
    return results, time.time() - t0


if __name__ == "__main__":
    mods = sys.argv[1].split(",")
    reg = load_registry(mods)
    quals = sys.argv[2:] or [q for q, c in reg.contracts.items() if not c.assumed]
    results, dt = verify(mods, quals)
    for r in results:
        print("==", r["qualname"], r["status"], r["reason"], "paths", r["paths"], "requires", r.get("requires_sat"), "exits", r.get("exits"))
        for o in r["obligations"]:
            if o["verdict"] != "proved" or os.environ.get("V"):
                print("   ", o["verdict"], o["id"], "L%s" % o["line"], o["time"], "[%s]" % o["backend"][:40], o["desc"][:150], o["trace"])
                if o["verdict"] == "failed" and os.environ.get("M"):
                    print("      model:", o["model"])
        n = len(r["obligations"]); p = sum(o["verdict"] == "proved" for o in r["obligations"])
        print("   proved %d/%d" % (p, n))
    print("wall %.1fs" % dt)
