"""Bounded quantifier instantiation.

hyps and not goal is rewritten into a quantifier-free formula: existentials (by polarity) are
skolemised, universals are replaced by the conjunction of their instances over the ground terms that
occur as array indices / function arguments / constants of the same sort (two rounds, so terms made
by instances are used too).

* unsat of the rewritten formula  =>  unsat of the original (every instance is a consequence;
  skolemisation preserves satisfiability): a PROOF.
* sat of the rewritten formula    =>  a candidate counter-model: the original is satisfiable whenever
  the universal hypotheses are point-wise (the shape every generated fact, frame and invariant has).
  It is reported as a failed obligation; replay on the real code decides whether an input exists.
"""
import itertools
import z3

MAX_INST = 800
MAX_VARS = 3


def _is_ground(t, cache):
    i = t.get_id()
    r = cache.get(i)
    if r is None:
        if z3.is_var(t):
            r = False
        elif z3.is_quantifier(t):
            r = False
        else:
            r = all(_is_ground(c, cache) for c in t.children())
        cache[i] = r
    return r


def collect_terms(fs, terms, gcache):
    """ground index / argument terms by sort"""
    seen = set()
    todo = list(fs)
    while todo:
        t = todo.pop()
        i = t.get_id()
        if i in seen:
            continue
        seen.add(i)
        if z3.is_quantifier(t):
            todo.append(t.body())
            continue
        if z3.is_app(t):
            k = t.decl().kind()
            ch = t.children()
            cand = []
            if k == z3.Z3_OP_SELECT:
                cand = ch[1:]
            elif k == z3.Z3_OP_STORE:
                cand = ch[1:-1]
            elif k == z3.Z3_OP_UNINTERPRETED and ch:
                cand = ch
            elif k in (z3.Z3_OP_EQ, z3.Z3_OP_DISTINCT):
                cand = [c for c in ch if c.sort().kind() in (z3.Z3_SEQ_SORT, z3.Z3_DATATYPE_SORT) or
                        (z3.is_const(c) and c.decl().kind() == z3.Z3_OP_UNINTERPRETED)]
            for ci, c in enumerate(cand):
                if c.sort().kind() == z3.Z3_BOOL_SORT:
                    continue
                if c.sort().kind() == z3.Z3_ARRAY_SORT and k != z3.Z3_OP_UNINTERPRETED:
                    continue
                if _is_ground(c, gcache):
                    terms.setdefault(str(c.sort()), {})[c.get_id()] = c
                    if k in (z3.Z3_OP_SELECT, z3.Z3_OP_STORE):
                        terms.setdefault(_pos_class(ch[0]), {})[c.get_id()] = c
                    elif k == z3.Z3_OP_UNINTERPRETED:
                        terms.setdefault("uf:%s:%d" % (t.decl().name().split("!")[0], ci), {})[c.get_id()] = c
            todo.extend(ch)


def _pos_class(arr):
    """position class of an array index: heap arrays (indexed by reference) vs inner arrays (list elements /
    dictionary keys), by sort"""
    srt = arr.sort()
    kind = "heap" if srt.range().kind() == z3.Z3_ARRAY_SORT else "inner"
    return "%s:%s" % (kind, srt)


def var_classes(body, nvars):
    """for each bound variable of a quantifier (index 0..nvars-1 in var order) the position classes in which it
    occurs directly as an array index / function argument"""
    out = [set() for _ in range(nvars)]
    seen = set()

    def rec(t, shift):
        key = (t.get_id(), shift)
        if key in seen:
            return
        seen.add(key)
        if z3.is_quantifier(t):
            rec(t.body(), shift + t.num_vars())
            return
        if not z3.is_app(t):
            return
        k = t.decl().kind()
        ch = t.children()
        cand = []
        if k in (z3.Z3_OP_SELECT, z3.Z3_OP_STORE):
            cand = [(c, _pos_class(ch[0])) for c in (ch[1:] if k == z3.Z3_OP_SELECT else ch[1:-1])]
        elif k == z3.Z3_OP_UNINTERPRETED and ch:
            cand = [(c, "uf:%s:%d" % (t.decl().name().split("!")[0], i)) for i, c in enumerate(ch)]
        for c, cls in cand:
            if z3.is_var(c):
                idx = z3.get_var_index(c) - shift
                if 0 <= idx < nvars:
                    out[nvars - 1 - idx].add(cls)
        for c in ch:
            rec(c, shift)
    rec(body, 0)
    return out


class Inst:
    def __init__(self, terms):
        self.terms = terms
        self.n = itertools.count()
        self.leftover = False
        self.budget = 6000  # total number of instances generated
        self.dropped = 0
        self.keep_wide = False
        self.vclass_cache = {}

    def fresh(self, sort, base, register=True):
        c = z3.Const("sk!%s!%d" % (base, next(self.n)), sort)
        if register:
            self.terms.setdefault(str(sort), {})[c.get_id()] = c
        return c

    def tr(self, f, pos, skolem_only, env=()):
        """pos: f is asserted true (True) / false (False).  f is an ORIGINAL sub-term (it may contain
        de Bruijn variables); env maps Var(i) -> env[i].  Only quantifier-free leaves are substituted."""
        if not _has_q(f):
            return z3.substitute_vars(f, *env) if env else f
        if z3.is_quantifier(f):
            if f.is_lambda():
                self.leftover = True
                return z3.substitute_vars(f, *env) if env else f
            univ = f.is_forall() == pos  # behaves as a universal under this polarity
            n = f.num_vars()
            sorts = [f.var_sort(i) for i in range(n)]
            if not univ:
                consts = [self.fresh(sorts[i], f.var_name(i).split("!")[0], register=skolem_only or not env)
                          for i in range(n)]
                return self.tr(f.body(), pos, skolem_only, tuple(reversed(consts)) + tuple(env))
            if skolem_only:
                return z3.substitute_vars(f, *env) if env else f
            if n > MAX_VARS or self.budget <= 0:
                self.leftover = True
                self.dropped += 1
                if self.keep_wide and n > MAX_VARS:
                    return z3.substitute_vars(f, *env) if env else f
                return z3.BoolVal(pos)  # drop the hypothesis: sound for 'unsat', weaker candidate for 'sat' 
            pools = []
            vcls = self.vclass_cache.get(f.get_id())
            if vcls is None:
                vcls = var_classes(f.body(), n)
                self.vclass_cache[f.get_id()] = vcls
            for vi, s in enumerate(sorts):
                p = {}
                for cls in vcls[vi]:
                    p.update(self.terms.get(cls, {}))
                if not vcls[vi]:
                    p = dict(self.terms.get(str(s), {}))
                p = list(p.values())
                if not p:
                    p = [self.fresh(s, "w")]
                pools.append(p)
            total = 1
            for p in pools:
                total *= len(p)
            while total > MAX_INST:
                self.leftover = True
                big = max(pools, key=len)
                total //= len(big)
                del big[max(1, len(big) // 2):]
                total *= len(big)
            insts = []
            self.budget -= total
            for combo in itertools.product(*pools):
                insts.append(self.tr(f.body(), pos, skolem_only, tuple(reversed(combo)) + tuple(env)))
            if pos:
                return z3.And(*insts) if insts else z3.BoolVal(True)
            return z3.Or(*insts) if insts else z3.BoolVal(False)
        k = f.decl().kind()
        ch = f.children()
        if k == z3.Z3_OP_AND:
            return z3.And(*[self.tr(c, pos, skolem_only, env) for c in ch])
        if k == z3.Z3_OP_OR:
            return z3.Or(*[self.tr(c, pos, skolem_only, env) for c in ch])
        if k == z3.Z3_OP_NOT:
            return z3.Not(self.tr(ch[0], not pos, skolem_only, env))
        if k == z3.Z3_OP_IMPLIES:
            return z3.Implies(self.tr(ch[0], not pos, skolem_only, env), self.tr(ch[1], pos, skolem_only, env))
        if k in (z3.Z3_OP_EQ, z3.Z3_OP_IFF) and ch[0].sort().kind() == z3.Z3_BOOL_SORT:
            a, b = ch
            return z3.And(z3.Implies(self.tr(a, not pos, skolem_only, env), self.tr(b, pos, skolem_only, env)),
                          z3.Implies(self.tr(b, not pos, skolem_only, env), self.tr(a, pos, skolem_only, env)))
        if k == z3.Z3_OP_ITE and f.sort().kind() == z3.Z3_BOOL_SORT:
            c, a, b = ch
            return z3.And(z3.Implies(self.tr(c, not pos, skolem_only, env), self.tr(a, pos, skolem_only, env)),
                          z3.Implies(z3.Not(self.tr(c, pos, skolem_only, env)), self.tr(b, pos, skolem_only, env)))
        self.leftover = True  # quantifier below a non-boolean connective: left to the solver
        return z3.substitute_vars(f, *env) if env else f


_hq = {}


def _has_q(f):
    i = f.get_id()
    r = _hq.get(i)
    if r is None:
        r = z3.is_quantifier(f) or any(_has_q(c) for c in f.children())
        _hq[i] = r
    return r


def bounded_check(hyps, goal, timeout_ms=20000, rounds=2):
    """returns ('unsat'|'sat'|'unknown', model or None, info)"""
    gcache = {}
    terms = {}
    fs = list(hyps) + [z3.Not(goal)]
    collect_terms(fs, terms, gcache)
    inst = Inst(terms)
    # pass 1: skolemise what can be skolemised at the top level, so their constants are instantiation terms
    fs1 = [inst.tr(f, True, True) for f in fs]
    collect_terms(fs1, terms, gcache)
    out = fs1
    for rnd in range(rounds):
        inst.budget = 6000
        out = [inst.tr(f, True, False) for f in fs1]
        if rnd == rounds - 1:
            break
        before = sum(len(v) for v in terms.values())
        new_terms = {}
        collect_terms(out, new_terms, gcache)
        # second generation: only a bounded number of new terms per sort (smallest first)
        for srt, d in new_terms.items():
            have = terms.setdefault(srt, {})
            extra = [t for i, t in d.items() if i not in have]
            extra.sort(key=lambda t: len(t.sexpr()))
            for t in extra[:max(0, 40 - len(have))]:
                have[t.get_id()] = t
        if sum(len(v) for v in terms.values()) == before:
            break
    s = z3.Solver()
    s.set("timeout", min(timeout_ms, 4000))
    s.add(*out)
    r = s.check()
    info = {"terms": {k: len(v) for k, v in terms.items() if ":" not in k}, "leftover": inst.leftover,
            "dropped": inst.dropped, "qf_backend": "z3"}
    if r == z3.unsat:
        return "unsat", None, info
    if r == z3.sat:
        return "sat", s.model(), info
    # the instantiated formula is quantifier-free: cvc5 decides many string/array/datatype instances z3 does not
    if not inst.leftover or inst.dropped:
        from .engine import run_cvc5
        c = run_cvc5(s.to_smt2(), max(5, timeout_ms // 1000))
        info["qf_backend"] = "cvc5-1.0.3"
        if c in ("sat", "unsat"):
            return c, None, info
    return "unknown", None, info
