"""Expression evaluation (program expressions and spec expressions) to z3 terms."""
import ast
import z3
from .vtypes import *  # noqa
from .state import State, Unsupported, StaleContract, fresh_name, default_of, _field_sort


class Ctx:
    """Evaluation context for one statement / one spec clause."""

    def __init__(self, spec=False, old=None, guard=None):
        self.spec = spec
        self.old = old  # State snapshot for old(...)
        self.guard = guard if guard is not None else z3.BoolVal(True)
        self.excs = []  # (cond, exc class, lineno)
        self.binders = []  # stack of (vars, guard) for comprehension bodies
        self.labels = {}  # name -> State snapshot (at(label, e))
        self.cur_state = None  # working state of the statement being executed (snapshot source)

    def exc(self, cond, cls, node):
        """record: under the current guard, `cond` raises `cls`"""
        if self.spec:
            return
        c = z3.And(self.guard, cond)
        for vars_, g in reversed(self.binders):
            c = z3.Exists(vars_, z3.And(g, c)) if vars_ else z3.And(g, c)
        c = z3.simplify(c)
        if z3.is_false(c):
            return
        snap = self.cur_state.copy() if self.cur_state is not None else None
        self.excs.append((c, cls, getattr(node, "lineno", 0), snap))

    def with_guard(self, g):
        c = Ctx(self.spec, self.old, z3.And(self.guard, g))
        c.excs = self.excs
        c.binders = self.binders
        c.labels = self.labels
        c.cur_state = self.cur_state
        return c


def py_floordiv(a, b):
    return z3.If(b > 0, a / b, (-a) / (-b))


def py_mod(a, b):
    return a - b * py_floordiv(a, b)


class ExprMixin:
    # ------------------------------------------------------------------ helpers
    def truthy(self, sv, st):
        k = sv.ty.kind
        if k == "bool":
            t = sv.t
        elif k == "int":
            t = sv.t != 0
        elif k == "str":
            t = z3.Length(sv.t) > 0
        elif k == "real":
            t = sv.t != 0
        elif k == "none":
            return z3.BoolVal(False)
        elif k == "val":
            v = sv.t
            return z3.If(Val.is_VBool(v), Val.b(v),
                         z3.If(Val.is_VInt(v), Val.i(v) != 0,
                               z3.If(Val.is_VStr(v), z3.Length(Val.s(v)) > 0,
                                     z3.If(Val.is_VNone(v), z3.BoolVal(False),
                                           z3.If(Val.is_VReal(v), Val.r(v) != 0, self.ref_truthy(Val.ref(v)))))))
        elif k == "list":
            t = st.list_len(sv.ty, sv.t) > 0
        elif k == "dict":
            kk = z3.Const(fresh_name("k"), sv.ty.args[0].sort())
            t = z3.Exists([kk], st.dict_dom(sv.ty, sv.t)[kk])
        elif k == "obj":
            t = z3.BoolVal(True)
        elif k == "tuple":
            return z3.BoolVal(len(sv.items) > 0)
        else:
            raise Unsupported("truthiness of %r" % sv.ty)
        if sv.none is not None:
            return z3.And(z3.Not(sv.none), t)
        return t

    def is_none(self, sv):
        if sv.ty.kind == "none":
            return z3.BoolVal(True)
        if sv.ty.kind == "val":
            return Val.is_VNone(sv.t)
        if sv.none is not None:
            return sv.none
        return z3.BoolVal(False)

    def coerce(self, sv, ty, st=None):
        """adapt a value to a declared static type"""
        if ty.kind == "opt":
            inner = ty.args[0]
            if sv.ty.kind == "none":
                return SV(inner, self.fresh_const("none", inner), none=z3.BoolVal(True)) if inner.kind != "val" else SV(VAL, Val.VNone)
            r = self.coerce(sv, inner, st)
            return r
        if sv.ty == ty:
            if ty.kind == "tuple" and sv.t is None and sv.items is not None and \
                    all(i.t is not None and i.none is None and i.ty.kind in ("int", "bool", "str", "real", "dict", "list", "obj") for i in sv.items):
                sv = SV(sv.ty, tuple_term(sv), items=sv.items)  # storable in a list
            return sv
        if ty.kind == "val":
            if sv.ty.kind in ("fun", "opaque", "gen"):
                return SV(VAL, self.fresh_const("opaque", VAL))  # a value the model does not look into
            if sv.ty.kind == "tuple":
                return SV(VAL, self.fresh_const("tuple", VAL))
            return SV(VAL, box(sv))
        if sv.ty.kind == "val":
            r = unbox(sv.t, ty)
            if st is not None and self.assume_types:
                st.assume(z3.Or(val_is(sv.t, ty), Val.is_VNone(sv.t)))
            return r
        if sv.ty.kind == "none":
            if ty.kind in ("tuple",):
                raise Unsupported("None coerced to %r" % ty)
            return SV(ty, self.fresh_const("none", ty), none=z3.BoolVal(True))
        if sv.ty.kind == "bool" and ty.kind == "int":
            return SV(INT, z3.If(sv.t, z3.IntVal(1), z3.IntVal(0)), sv.none)
        if sv.ty.kind == "int" and ty.kind == "real":
            return SV(REAL, z3.ToReal(sv.t), sv.none)
        if sv.ty.is_ref and ty.is_ref and sv.ty.kind == ty.kind:
            return SV(ty, sv.t, sv.none, py=sv.py)  # e.g. dict[str,val] vs declared alias
        if sv.ty.kind == "tuple" and ty.kind == "tuple" and len(sv.items) == len(ty.args):
            r = mk_tuple([self.coerce(i, t, st) for i, t in zip(sv.items, ty.args)])
            if all(i.t is not None and i.none is None and i.ty.kind in ("int", "bool", "str", "real", "dict", "list", "obj") for i in r.items):
                r.t = tuple_term(r)  # storable in a list
            return r
        raise Unsupported("cannot coerce %r to %r" % (sv.ty, ty))

    def fresh_const(self, base, ty):
        return z3.Const(fresh_name(base), ty.sort())

    def fresh_sv(self, base, ty, st=None, maybe_none=False):
        if ty.kind == "opt":
            return self.fresh_sv(base, ty.args[0], st, maybe_none=True)
        if ty.kind == "tuple":
            return mk_tuple([self.fresh_sv(base, t, st) for t in ty.args])
        if ty.kind == "none":
            return mk_none()
        t = self.fresh_const(base, ty)
        none = None
        if maybe_none and ty.kind != "val":
            none = z3.Bool(fresh_name(base + "_isnone"))
        return SV(ty, t, none)

    def named_array(self, st, j, body, name):
        """an array constant a with a[j] == body for every j (lambda terms are avoided: they cannot occur in patterns)"""
        a = z3.Const(fresh_name(name), z3.ArraySort(I, body.sort()))
        st.assume(z3.ForAll([j], a[j] == body, patterns=[a[j]]))
        return a

    def eq(self, a, b, st):
        """python == as a z3 Bool"""
        ka, kb = a.ty.kind, b.ty.kind
        if ka == "tuple" and kb == "tuple":
            if len(a.items) != len(b.items):
                return z3.BoolVal(False)
            return z3.And(*[self.eq(x, y, st) for x, y in zip(a.items, b.items)]) if a.items else z3.BoolVal(True)
        if ka == "none" or kb == "none":
            o = b if ka == "none" else a
            return self.is_none(o)
        if ka == "val" or kb == "val":
            return box(a) == box(b)
        if ka in ("int", "bool", "real") and kb in ("int", "bool", "real") and ka != kb:
            def num(x):
                if x.ty.kind == "bool":
                    return z3.If(x.t, z3.IntVal(1), z3.IntVal(0))
                return x.t
            core = num(a) == num(b)
        elif ka != kb:
            core = z3.BoolVal(False)
        elif ka == "dict":
            # python compares dict contents
            core = z3.And(st.dict_dom(a.ty, a.t) == st.dict_dom(b.ty, b.t),
                          st.dict_val(a.ty, a.t) == st.dict_val(b.ty, b.t)) if a.ty == b.ty else z3.BoolVal(False)
        elif ka == "list":
            if a.ty != b.ty:
                raise Unsupported("== on lists of different element type")
            la, lb = st.list_len(a.ty, a.t), st.list_len(b.ty, b.t)
            j = z3.Int(fresh_name("j"))
            ea, eb = st.list_elems(a.ty, a.t), st.list_elems(b.ty, b.t)
            if a.ty.args[0].is_ref:
                raise Unsupported("== on lists of references")
            core = z3.And(la == lb, z3.ForAll([j], z3.Implies(z3.And(0 <= j, j < la), ea[j] == eb[j])))
        elif ka == "set":
            core = a.t == b.t
        elif ka == "keys":
            core = st.dict_dom(a.py.ty, a.py.t) == st.dict_dom(b.py.ty, b.py.t)
        else:
            core = a.t == b.t
        na = a.none if a.none is not None else z3.BoolVal(False)
        nb = b.none if b.none is not None else z3.BoolVal(False)
        if a.none is None and b.none is None:
            return core
        return z3.Or(z3.And(na, nb), z3.And(z3.Not(na), z3.Not(nb), core))

    # ------------------------------------------------------------------ entry
    def ev(self, node, st, ctx):
        m = getattr(self, "ev_" + type(node).__name__, None)
        if m is None:
            raise Unsupported("expression %s at line %s" % (type(node).__name__, getattr(node, "lineno", "?")))
        return m(node, st, ctx)

    def ev_Constant(self, node, st, ctx):
        v = node.value
        if v is None:
            return mk_none()
        if isinstance(v, bool):
            return mk_bool(v)
        if isinstance(v, int):
            return mk_int(v)
        if isinstance(v, str):
            return mk_str(v)
        if isinstance(v, float):
            return mk_real(v)
        raise Unsupported("constant %r" % (v,))

    def ev_Name(self, node, st, ctx):
        n = node.id
        if n in st.locals:
            return st.locals[n]
        if n in st.ghost:
            return st.ghost[n]
        if ctx.spec:
            if n in SPEC_TYPES:
                return SV(FUN, py=("type", SPEC_TYPES[n]))
            if n in self.reg.specfuns:
                return SV(FUN, py=("specfun", n))
            if n == "result":
                raise StaleContract("'result' used where no result is available")
        if n in ("True", "False"):
            return mk_bool(n == "True")
        k = self.module_consts.get(n)
        if k is not None:
            return self.const_sv(k, st)
        return SV(FUN, py=("name", n))

    def const_sv(self, v, st):
        if v is None:
            return mk_none()
        if isinstance(v, bool):
            return mk_bool(v)
        if isinstance(v, int):
            return mk_int(v)
        if isinstance(v, str):
            return mk_str(v)
        if isinstance(v, float):
            return mk_real(v)
        return SV(FUN, py=("const", v))

    def ev_Tuple(self, node, st, ctx):
        return mk_tuple([self.ev(e, st, ctx) for e in node.elts])

    def ev_JoinedStr(self, node, st, ctx):
        parts = []
        for v in node.values:
            if isinstance(v, ast.Constant):
                parts.append(z3.StringVal(v.value))
            else:
                x = self.ev(v.value, st, ctx)
                parts.append(self.to_str(x))
        if not parts:
            return mk_str("")
        return mk_str(z3.Concat(*parts) if len(parts) > 1 else parts[0])

    def to_str(self, x):
        if x.ty.kind == "str":
            return x.t
        if x.ty.kind == "int":
            return z3.If(x.t >= 0, z3.IntToStr(x.t), z3.Concat(z3.StringVal("-"), z3.IntToStr(-x.t)))
        f = self.uf("str_of_" + x.ty.kind, [x.ty.sort()], S)
        return f(x.t)

    def uf(self, name, argsorts, ressort):
        key = (name, tuple(str(s) for s in argsorts), str(ressort))
        f = self._ufs.get(key)
        if f is None:
            f = z3.Function(name, *argsorts, ressort)
            self._ufs[key] = f
        return f

    def ref_truthy(self, r):
        return self.uf("ref_truthy", [I], B)(r)

    # ------------------------------------------------------------------ operators
    def ev_BoolOp(self, node, st, ctx):
        # python and/or return operands; supported when used as booleans or same-typed values
        vals = []
        g = ctx
        conds = []
        for i, e in enumerate(node.values):
            v = self.ev(e, st, g)
            vals.append(v)
            t = self.truthy(v, st)
            conds.append(t)
            g = g.with_guard(t if isinstance(node.op, ast.And) else z3.Not(t))
        if all(v.ty.kind == "bool" and v.none is None for v in vals):
            ts = [v.t for v in vals]
            return mk_bool(z3.And(*ts) if isinstance(node.op, ast.And) else z3.Or(*ts))
        # value-returning form: a or b -> If(truthy(a), a, b)
        res = vals[-1]
        for v, c in zip(reversed(vals[:-1]), reversed(conds[:-1])):
            if isinstance(node.op, ast.And):
                res = self.ite(c, res, v, st)
            else:
                res = self.ite(c, v, res, st)
        return res

    def ite(self, c, a, b, st):
        if z3.is_true(c):
            return a
        if z3.is_false(c):
            return b
        if a.ty.kind == "tuple" and b.ty.kind == "tuple" and len(a.items) == len(b.items):
            return mk_tuple([self.ite(c, x, y, st) for x, y in zip(a.items, b.items)])
        if a.ty == b.ty and a.ty.kind not in ("none", "fun", "tuple"):
            none = None
            if a.none is not None or b.none is not None:
                none = z3.If(c, a.none if a.none is not None else z3.BoolVal(False),
                             b.none if b.none is not None else z3.BoolVal(False))
            return SV(a.ty, z3.If(c, a.t, b.t), none, py=a.py or b.py)
        if a.ty.kind == "none" and b.ty.kind == "none":
            return a
        if a.ty.kind == "none" and b.ty.kind not in ("fun", "tuple", "val"):
            return SV(b.ty, b.t, z3.If(c, z3.BoolVal(True), b.none if b.none is not None else z3.BoolVal(False)))
        if b.ty.kind == "none" and a.ty.kind not in ("fun", "tuple", "val"):
            return SV(a.ty, a.t, z3.If(c, a.none if a.none is not None else z3.BoolVal(False), z3.BoolVal(True)))
        if a.ty.kind == "int" and b.ty.kind == "bool" or a.ty.kind == "bool" and b.ty.kind == "int":
            return self.ite(c, self.coerce(a, INT), self.coerce(b, INT), st)
        return SV(VAL, z3.If(c, box(a), box(b)))

    def ev_IfExp(self, node, st, ctx):
        c = self.truthy(self.ev(node.test, st, ctx), st)
        a = self.ev(node.body, st, ctx.with_guard(c))
        b = self.ev(node.orelse, st, ctx.with_guard(z3.Not(c)))
        return self.ite(c, a, b, st)

    def ev_UnaryOp(self, node, st, ctx):
        v = self.ev(node.operand, st, ctx)
        if isinstance(node.op, ast.Not):
            return mk_bool(z3.Not(self.truthy(v, st)))
        if isinstance(node.op, ast.USub):
            v = self.num(v, st)
            return SV(v.ty, -v.t)
        if isinstance(node.op, ast.UAdd):
            return self.num(v, st)
        raise Unsupported("unary op")

    def num(self, v, st):
        if v.ty.kind == "val":
            if self.assume_types:
                st.assume(Val.is_VInt(v.t))
            return SV(INT, Val.i(v.t))
        if v.ty.kind == "bool":
            return SV(INT, z3.If(v.t, z3.IntVal(1), z3.IntVal(0)))
        if v.ty.kind in ("int", "real"):
            return SV(v.ty, v.t)
        raise Unsupported("number expected, got %r" % v.ty)

    def ev_BinOp(self, node, st, ctx):
        a = self.ev(node.left, st, ctx)
        b = self.ev(node.right, st, ctx)
        return self.binop(node.op, a, b, st, ctx, node)

    def binop(self, op, a, b, st, ctx, node):
        if isinstance(op, ast.Add) and (a.ty.kind == "str" or b.ty.kind == "str"):
            a = self.coerce(a, STR, st)
            b = self.coerce(b, STR, st)
            return mk_str(z3.Concat(a.t, b.t))
        if isinstance(op, ast.Mult) and (a.ty.kind == "str" or b.ty.kind == "str"):
            s, n = (a, b) if a.ty.kind == "str" else (b, a)
            n = self.num(n, st)
            return mk_str(self.str_repeat(s.t, n.t, st))
        if isinstance(op, ast.Mod) and a.ty.kind == "str":
            raise Unsupported("% string formatting")
        if isinstance(op, ast.Add) and a.ty.kind == "list" and b.ty.kind == "list":
            return self.list_concat(a, b, st)
        if isinstance(op, ast.BitOr) and a.ty.kind == "set":
            return SV(a.ty, z3.Map(z3.Or, a.t, b.t)) if False else self._set_union(a, b)
        a = self.num(a, st)
        b = self.num(b, st)
        if a.ty.kind == "real" or b.ty.kind == "real":
            x = z3.ToReal(a.t) if a.ty.kind == "int" else a.t
            y = z3.ToReal(b.t) if b.ty.kind == "int" else b.t
            if isinstance(op, ast.Add):
                return mk_real(x + y)
            if isinstance(op, ast.Sub):
                return mk_real(x - y)
            if isinstance(op, ast.Mult):
                return mk_real(x * y)
            if isinstance(op, ast.Div):
                ctx.exc(y == 0, "ZeroDivisionError", node)
                return mk_real(x / y)
            raise Unsupported("real operator")
        if isinstance(op, ast.Add):
            return mk_int(a.t + b.t)
        if isinstance(op, ast.Sub):
            return mk_int(a.t - b.t)
        if isinstance(op, ast.Mult):
            return mk_int(a.t * b.t)
        if isinstance(op, ast.FloorDiv):
            ctx.exc(b.t == 0, "ZeroDivisionError", node)
            return mk_int(py_floordiv(a.t, b.t))
        if isinstance(op, ast.Mod):
            ctx.exc(b.t == 0, "ZeroDivisionError", node)
            return mk_int(py_mod(a.t, b.t))
        if isinstance(op, ast.Div):
            ctx.exc(b.t == 0, "ZeroDivisionError", node)
            return mk_real(z3.ToReal(a.t) / z3.ToReal(b.t))
        raise Unsupported("binary operator %s" % type(op).__name__)

    def _set_union(self, a, b):
        k = z3.Const(fresh_name("k"), a.ty.args[0].sort())
        return SV(a.ty, z3.Lambda([k], z3.Or(a.t[k], b.t[k])))

    def str_repeat(self, s, n, st):
        """s * n: uninterpreted REP(s,n) with the unfolding facts instantiated here"""
        f = self.uf("str_repeat", [S, I], S)
        r = f(s, n)
        st.assume(z3.Implies(n <= 0, r == z3.StringVal("")))
        st.assume(z3.Implies(n > 0, z3.Length(r) == n * z3.Length(s)))
        st.assume(z3.Implies(n == 1, r == s))
        st.assume(z3.Implies(n > 0, z3.PrefixOf(s, r)))
        st.assume(z3.Implies(n > 0, r == z3.Concat(s, f(s, n - 1))))
        return r

    def list_concat(self, a, b, st):
        if a.ty != b.ty:
            raise Unsupported("list + list of different element types")
        la, lb = st.list_len(a.ty, a.t), st.list_len(b.ty, b.t)
        ea, eb = st.list_elems(a.ty, a.t), st.list_elems(b.ty, b.t)
        j = z3.Int(fresh_name("j"))
        r = st.new_ref()
        st.set_list(a.ty, r, la + lb, self.named_array(st, j, z3.If(j < la, ea[j], eb[j - la]), "cat"))
        return SV(a.ty, r)

    def ev_Compare(self, node, st, ctx):
        left = self.ev(node.left, st, ctx)
        res = []
        g = ctx
        for op, rn in zip(node.ops, node.comparators):
            right = self.ev(rn, st, g)
            c = self.compare(op, left, right, st, g, node)
            res.append(c)
            g = g.with_guard(c)
            left = right
        return mk_bool(z3.And(*res) if len(res) > 1 else res[0])

    def compare(self, op, a, b, st, ctx, node):
        if isinstance(op, ast.Eq):
            return self.eq(a, b, st)
        if isinstance(op, ast.NotEq):
            return z3.Not(self.eq(a, b, st))
        if isinstance(op, (ast.Is, ast.IsNot)):
            if b.ty.kind == "none":
                r = self.is_none(a)
            elif a.ty.kind == "none":
                r = self.is_none(b)
            elif a.ty.is_ref and b.ty.is_ref:
                r = a.t == b.t
            else:
                raise Unsupported("'is' on non-references")
            return r if isinstance(op, ast.Is) else z3.Not(r)
        if isinstance(op, (ast.In, ast.NotIn)):
            r = self.contains(b, a, st, ctx, node)
            return r if isinstance(op, ast.In) else z3.Not(r)
        if a.ty.kind == "str" and b.ty.kind == "str":
            if isinstance(op, ast.Lt):
                return a.t < b.t
            if isinstance(op, ast.LtE):
                return a.t <= b.t
            if isinstance(op, ast.Gt):
                return b.t < a.t
            if isinstance(op, ast.GtE):
                return b.t <= a.t
        x = self.num(a, st)
        y = self.num(b, st)
        xt, yt = x.t, y.t
        if x.ty.kind != y.ty.kind:
            xt = z3.ToReal(xt) if x.ty.kind == "int" else xt
            yt = z3.ToReal(yt) if y.ty.kind == "int" else yt
        if isinstance(op, ast.Lt):
            return xt < yt
        if isinstance(op, ast.LtE):
            return xt <= yt
        if isinstance(op, ast.Gt):
            return xt > yt
        if isinstance(op, ast.GtE):
            return xt >= yt
        raise Unsupported("comparison %s" % type(op).__name__)

    def contains(self, cont, x, st, ctx, node):
        k = cont.ty.kind
        if k == "dict":
            key = self.coerce(x, cont.ty.args[0], st)
            return st.dict_dom(cont.ty, cont.t)[key.t]
        if k == "obj":
            if x.ty.kind == "str" and z3.is_string_value(x.t):
                decl = self.reg.classes.get(cont.ty.args[0])
                return z3.BoolVal(decl is not None and x.t.as_string() in decl["fields"])
            raise Unsupported("'in' on a record with a non-constant key")
        if k == "map":
            key = self.coerce(x, cont.ty.args[0], st)
            return cont.t[0][key.t]
        if k == "set":
            key = self.coerce(x, cont.ty.args[0], st)
            return cont.t[key.t]
        if k == "keys":
            d = cont.py
            return self.contains(d, x, st, ctx, node)
        if k == "list":
            j = z3.Int(fresh_name("j"))
            n = st.list_len(cont.ty, cont.t)
            e = st.list_elems(cont.ty, cont.t)
            if x.ty.kind == "val" and cont.ty.args[0].kind != "val":
                return z3.Exists([j], z3.And(0 <= j, j < n, box(SV(cont.ty.args[0], e[j])) == x.t))
            xv = self.coerce(x, cont.ty.args[0], st)
            return z3.Exists([j], z3.And(0 <= j, j < n, e[j] == xv.t))
        if k == "tuple":
            return z3.Or(*[self.eq(x, i, st) for i in cont.items]) if cont.items else z3.BoolVal(False)
        if k == "str":
            xs = self.coerce(x, STR, st)
            return z3.Contains(cont.t, xs.t)
        if k == "val" and x.ty.kind in ("str", "val"):
            # row value used as container: only strings supported
            if self.assume_types:
                st.assume(Val.is_VStr(cont.t))
            return z3.Contains(Val.s(cont.t), self.coerce(x, STR, st).t)
        raise Unsupported("'in' on %r" % cont.ty)

    # ------------------------------------------------------------------ subscripts / attributes
    def ev_Subscript(self, node, st, ctx):
        base = self.ev(node.value, st, ctx)
        if base.ty.kind == "opaque":
            return base  # data-frame / ndarray selections keep the provenance of the value
        if isinstance(node.slice, ast.Slice):
            return self.slice_of(base, node.slice, st, ctx, node)
        idx = self.ev(node.slice, st, ctx)
        return self.getitem(base, idx, st, ctx, node)

    def getitem(self, base, idx, st, ctx, node):
        k = base.ty.kind
        if k == "val":
            # a row value used as a container: must be declared through a coercion first
            raise Unsupported("subscript on untyped value at line %s" % getattr(node, "lineno", "?"))
        if base.none is not None and not ctx.spec:
            ctx.exc(base.none, "TypeError", node)
        if k == "dict":
            key = self.coerce(idx, base.ty.args[0], st)
            dom = st.dict_dom(base.ty, base.t)
            val = st.dict_val(base.ty, base.t)
            if base.py == "defaultdict":
                return self.wrap(val[key.t], base.ty.args[1])
            ctx.exc(z3.Not(dom[key.t]), "KeyError", node)
            return self.wrap(val[key.t], base.ty.args[1])
        if k == "map":
            key = self.coerce(idx, base.ty.args[0], st)
            return self.wrap(base.t[1][key.t], base.ty.args[1])
        if k == "list":
            i = self.num(idx, st).t
            n = st.list_len(base.ty, base.t)
            ctx.exc(z3.Or(i >= n, i < -n), "IndexError", node)
            ii = z3.If(i < 0, i + n, i) if not ctx.spec else i
            e = st.list_elems(base.ty, base.t)[ii]
            r = self.wrap(e, base.ty.args[0])
            if base.ty.args[0].is_ref and not ctx.spec:
                st.assume(z3.And(0 <= e, e < st.alloc))
            return r
        if k == "tuple":
            if not z3.is_int_value(idx.t):
                raise Unsupported("tuple index must be constant")
            return base.items[idx.t.as_long()]
        if k == "obj":
            if idx.ty.kind == "str" and z3.is_string_value(idx.t):
                f = idx.t.as_string()
                decl = self.reg.classes.get(base.ty.args[0])
                if decl is None or f not in decl["fields"]:
                    raise Unsupported("record %s has no field %r" % (base.ty.args[0], f))
                return self.getattr_sv(base, f, st, ctx, node)
            raise Unsupported("record subscript must be a constant string")
        if k == "str":
            i = self.num(idx, st).t
            n = z3.Length(base.t)
            ctx.exc(z3.Or(i >= n, i < -n), "IndexError", node)
            ii = z3.If(i < 0, i + n, i)
            return mk_str(z3.SubString(base.t, ii, 1))
        if k == "strlist":  # result of str.split kept symbolic: (string, sep)
            return self.split_item(base, idx, st, ctx, node)
        raise Unsupported("subscript on %r" % base.ty)

    def wrap(self, term, ty):
        if ty.kind == "tuple":
            return tuple_from_term(term, ty)
        if ty.kind == "val":
            return SV(VAL, term)
        if ty.kind == "opt":
            return unbox(term, ty.args[0])
        return SV(ty, term)

    def slice_of(self, base, sl, st, ctx, node):
        lo = self.num(self.ev(sl.lower, st, ctx), st).t if sl.lower is not None else None
        hi = self.num(self.ev(sl.upper, st, ctx), st).t if sl.upper is not None else None
        if sl.step is not None:
            raise Unsupported("slice step")
        if base.ty.kind == "str":
            n = z3.Length(base.t)
            lo_ = z3.IntVal(0) if lo is None else z3.If(lo < 0, z3.If(lo + n < 0, 0, lo + n), z3.If(lo > n, n, lo))
            hi_ = n if hi is None else z3.If(hi < 0, z3.If(hi + n < 0, 0, hi + n), z3.If(hi > n, n, hi))
            return mk_str(z3.SubString(base.t, lo_, z3.If(hi_ - lo_ < 0, 0, hi_ - lo_)))
        if base.ty.kind == "list":
            n = st.list_len(base.ty, base.t)
            lo_ = z3.IntVal(0) if lo is None else z3.If(lo < 0, z3.If(lo + n < 0, 0, lo + n), z3.If(lo > n, n, lo))
            hi_ = n if hi is None else z3.If(hi < 0, z3.If(hi + n < 0, 0, hi + n), z3.If(hi > n, n, hi))
            e = st.list_elems(base.ty, base.t)
            j = z3.Int(fresh_name("j"))
            r = st.new_ref()
            st.set_list(base.ty, r, z3.If(hi_ - lo_ < 0, 0, hi_ - lo_), self.named_array(st, j, e[j + lo_], "slice"))
            return SV(base.ty, r)
        raise Unsupported("slice of %r" % base.ty)

    def ev_Attribute(self, node, st, ctx):
        # dotted names that are not local values (modules, classes)
        d = self.dotted(node)
        if d is not None and d.split(".")[0] not in st.locals and d.split(".")[0] not in st.ghost:
            cv = self.class_const(d)
            if cv is not None:
                return cv
            return SV(FUN, py=("name", d))
        base = self.ev(node.value, st, ctx)
        return self.getattr_sv(base, node.attr, st, ctx, node)

    def dotted(self, node):
        parts = []
        while isinstance(node, ast.Attribute):
            parts.append(node.attr)
            node = node.value
        if isinstance(node, ast.Name):
            parts.append(node.id)
            return ".".join(reversed(parts))
        return None

    def mangle(self, attr, cls=None):
        cls = cls or self.cur_class
        if attr.startswith("__") and not attr.endswith("__") and cls:
            return "_%s%s" % (cls.lstrip("_"), attr)
        return attr

    def getattr_sv(self, base, attr, st, ctx, node):
        if base.ty.kind == "obj":
            cls = base.ty.args[0]
            decl = self.reg.classes.get(cls)
            if decl is None:
                raise Unsupported("class %s not declared" % cls)
            a = self.mangle(attr)
            if a not in decl["fields"]:
                # method reference
                return SV(FUN, py=("method", base, attr))
            fty = decl["fields"][a]
            if base.none is not None and not ctx.spec:
                ctx.exc(base.none, "AttributeError", node)
            t = st.field(cls, a, fty, base.t)
            r = self.wrap(t, fty)
            if fty.is_ref and not ctx.spec:
                st.assume(z3.And(0 <= t, t < st.alloc))
            return r
        return SV(FUN, py=("method", base, attr))

    def class_const(self, dotted):
        return None

    # ------------------------------------------------------------------ containers
    def ev_List(self, node, st, ctx):
        hint = self.hint_elem
        saved = (self.hint_elem, self.hint_dict)
        self.hint_elem = self.hint_dict = None  # the expected type is that of this display, not of displays nested in it
        try:
            items = [self.ev(e, st, ctx) for e in node.elts]
        finally:
            self.hint_elem, self.hint_dict = saved
        if not items:
            ety = hint if hint is not None else VAL
        else:
            ety = items[0].ty if all(i.ty == items[0].ty and (i.none is None or i.ty.is_ref) for i in items) else VAL
            if ety.kind == "tuple" and all(a.kind in ("int", "bool", "str", "real", "dict", "list", "obj") for a in ety.args):
                pass  # list of plain tuples
            elif ety.kind in ("tuple", "none", "fun"):
                ety = VAL
            if hint is not None and (hint.kind in ("val", "opt") or ety.kind == "val" or ety.kind == hint.kind):
                ety = hint  # e.g. a declared element type that the items can be read as
        return self.new_list(st, ety, items)

    def new_list(self, st, ety, items):
        lty = List(ety)
        r = st.new_ref()
        arr = z3.K(I, default_of(ety.sort())) if not ety.is_ref else z3.K(I, z3.IntVal(-1))
        for j, it in enumerate(items):
            arr = z3.Store(arr, j, self.coerce(it, ety, st).t)
        st.set_list(lty, r, z3.IntVal(len(items)), arr)
        return SV(lty, r)

    def ev_Dict(self, node, st, ctx):
        keys = [self.ev(k, st, ctx) for k in node.keys]
        vals = [self.ev(v, st, ctx) for v in node.values]
        if keys and all(k.ty.kind == "str" and z3.is_string_value(k.t) for k in keys):
            ks = sorted(k.t.as_string() for k in keys)
            for cname, decl in self.reg.classes.items():
                if decl.get("record") and sorted(decl["fields"]) == ks:
                    r = st.new_ref()
                    for k, v in zip(keys, vals):
                        f = k.t.as_string()
                        fty = decl["fields"][f]
                        st.set_field(cname, f, fty, r, self.coerce(v, fty, st).t)
                    return SV(Obj(cname), r)
        if keys and all(v.ty.kind == "int" and v.none is None for v in vals):
            vty = INT
        elif not keys and self.hint_dict is not None:
            return self.new_dict(st, self.hint_dict, [], [])
        else:
            vty = VAL
        return self.new_dict(st, Dict(STR, vty), keys, vals)

    def new_dict(self, st, dty, keys, vals):
        r = st.new_ref()
        ks, vs = dty.args[0].sort(), dty.args[1].sort()
        dom = z3.K(ks, z3.BoolVal(False))
        val = z3.K(ks, default_of(vs) if not dty.args[1].is_ref else z3.IntVal(-1))
        for k, v in zip(keys, vals):
            kt = self.coerce(k, dty.args[0], st).t
            dom = z3.Store(dom, kt, z3.BoolVal(True))
            val = z3.Store(val, kt, self.coerce(v, dty.args[1], st).t)
        st.set_dict(dty, r, dom, val)
        return SV(dty, r)

    # comprehensions / calls live in calls.py


SPEC_TYPES = {"INT": INT, "STR": STR, "BOOL": BOOL, "REAL": REAL, "VALUE": VAL, "ROW": ROW, "COMP": COMP,
              "REF": INT}
