"""Calls: builtins, container/string methods, comprehensions, spec builtins, modular contract calls."""
import ast
import os
import z3
from .vtypes import *  # noqa
from .state import State, Unsupported, StaleContract, fresh_name, default_of, fresh_mark
from .exprs import Ctx, SPEC_TYPES

SKIP_CALL_PREFIXES = ("logger.", "logging.", "print", "traceback.", "gc.", "warnings.")


class CallMixin:
    # ------------------------------------------------------------------ binders over iterables
    def iter_binder(self, it, st, ctx, targets):
        """Return (vars, guard, bindings) for 'for <targets> in <it>' used in a comprehension.
        it: SV of the iterable (possibly a pseudo value from keys()/items()/enumerate/zip/range)."""
        k = it.ty.kind
        if k == "dict" or k == "keys":
            d = it if k == "dict" else it.py
            kv = z3.Const(fresh_name("k"), d.ty.args[0].sort())
            guard = self.contains(d, SV(d.ty.args[0], kv), st, ctx, None)
            return [kv], guard, [SV(d.ty.args[0], kv)]
        if k == "map":
            kv = z3.Const(fresh_name("k"), it.ty.args[0].sort())
            return [kv], it.t[0][kv], [SV(it.ty.args[0], kv)]
        if k == "items":
            d = it.py
            kv = z3.Const(fresh_name("k"), d.ty.args[0].sort())
            ksv = SV(d.ty.args[0], kv)
            guard = self.contains(d, ksv, st, ctx, None)
            vv = self.getitem(d, ksv, st, Ctx(spec=True), None)
            return [kv], guard, [mk_tuple([ksv, vv])]
        if k == "values":
            d = it.py
            kv = z3.Const(fresh_name("k"), d.ty.args[0].sort())
            ksv = SV(d.ty.args[0], kv)
            guard = self.contains(d, ksv, st, ctx, None)
            return [kv], guard, [self.getitem(d, ksv, st, Ctx(spec=True), None)]
        if k == "list":
            j = z3.Int(fresh_name("j"))
            n = st.list_len(it.ty, it.t)
            e = self.wrap(st.list_elems(it.ty, it.t)[j], it.ty.args[0])
            return [j], z3.And(0 <= j, j < n), [e]
        if k == "enumerate":
            vs, g, b = self.iter_binder(it.py, st, ctx, None)
            if it.py.ty.kind != "list":
                raise Unsupported("enumerate over non-list")
            return vs, g, [mk_tuple([mk_int(vs[0]), b[0]])]
        if k == "zip":
            j = z3.Int(fresh_name("j"))
            gs, es = [], []
            for l in it.py:
                if l.ty.kind != "list":
                    raise Unsupported("zip over non-list")
                gs.append(j < st.list_len(l.ty, l.t))
                es.append(self.wrap(st.list_elems(l.ty, l.t)[j], l.ty.args[0]))
            return [j], z3.And(0 <= j, *gs), [mk_tuple(es)]
        if k == "range":
            lo, hi = it.py
            j = z3.Int(fresh_name("j"))
            return [j], z3.And(lo <= j, j < hi), [mk_int(j)]
        if k == "tuple":
            raise Unsupported("comprehension over tuple")
        if k == "strlist":
            j = z3.Int(fresh_name("j"))
            s, sep = it.py
            return [j], z3.And(0 <= j, j < self.split_len(s, sep, st)), [mk_str(self.split_at(s, sep, j))]
        raise Unsupported("iteration over %r" % it.ty)

    def bind_target(self, target, value, st):
        if isinstance(target, ast.Name):
            st.locals[target.id] = value
        elif isinstance(target, (ast.Tuple, ast.List)):
            if value.ty.kind != "tuple" or len(value.items) != len(target.elts):
                raise Unsupported("unpacking of %r" % value.ty)
            for t, v in zip(target.elts, value.items):
                self.bind_target(t, v, st)
        else:
            raise Unsupported("binding target")

    def comp_parts(self, node, st, ctx):
        """one generator only. returns (vars, guard(z3), elt SV, st2)"""
        if len(node.generators) != 1:
            raise Unsupported("nested comprehension")
        gen = node.generators[0]
        it = self.ev(gen.iter, st, ctx)
        vars_, guard, bound = self.iter_binder(it, st, ctx, gen.target)
        mark = fresh_mark()
        st2 = st.copy()
        st2.in_binder = True
        st2.binder_vars = list(st.binder_vars) + list(vars_)
        st2.writes = None
        self.bind_target(gen.target, bound[0], st2)
        ctx.binders.append((vars_, guard))
        self._bound_stack = getattr(self, "_bound_stack", [])
        self._bound_stack.append(list(vars_))
        try:
            g = guard
            c2 = ctx
            for cond in gen.ifs:
                cv = self.truthy(self.ev(cond, st2, c2), st2)
                g = z3.And(g, cv)
                c2 = c2.with_guard(cv)
            if hasattr(node, "elt"):
                elt = self.ev(node.elt, st2, c2)
            else:
                elt = mk_tuple([self.ev(node.key, st2, c2), self.ev(node.value, st2, c2)])
        finally:
            ctx.binders.pop()
            self._bound_stack.pop()
        if len(st2.pc) > len(st.pc):
            for f in st2.pc[len(st.pc):]:
                self.binder_audit(f, vars_, mark, node)
                st.assume(z3.ForAll(vars_, z3.Implies(guard, f)))
        if st2.alloc is not st.alloc:
            st.assume(st2.alloc >= st.alloc)  # allocation in the body (also when the iteration is empty)
        st.alloc = st2.alloc
        return vars_, g, elt, it

    def ev_GeneratorExp(self, node, st, ctx):
        return SV(Ty("gen"), py=node)

    def ev_ListComp(self, node, st, ctx):
        vars_, g, elt, it = self.comp_parts(node, st, ctx)
        gen = node.generators[0]
        if it.ty.kind not in ("list", "enumerate", "zip", "strlist", "range"):
            raise Unsupported("list comprehension over %r (order is not determined)" % it.ty)
        if elt.ty.kind in ("strlist", "gen", "keys", "items", "values", "enumerate", "zip", "range"):
            raise Unsupported("list comprehension whose elements are %r (line %s)" % (elt.ty, node.lineno))
        ety = elt.ty if elt.ty.kind not in ("tuple", "none", "fun") and elt.none is None else VAL
        j = vars_[0]
        et = self.coerce(elt, ety, st).t
        lty = List(ety)
        r = st.new_ref()
        if it.ty.kind == "range":
            lo, hi = it.py
            n = z3.If(hi - lo < 0, 0, hi - lo)
            base = lo
        elif it.ty.kind == "strlist":
            n = self.split_len(it.py[0], it.py[1], st)
            base = z3.IntVal(0)
        elif it.ty.kind == "zip":
            ls = [st.list_len(l.ty, l.t) for l in it.py]
            n = ls[0]
            for x in ls[1:]:
                n = z3.If(x < n, x, n)
            base = z3.IntVal(0)
        else:
            l = it if it.ty.kind == "list" else it.py
            n = st.list_len(l.ty, l.t)
            base = z3.IntVal(0)
        if not gen.ifs:
            jj = z3.Int(fresh_name("j"))
            mel = z3.Const(fresh_name("mapel"), z3.ArraySort(I, ety.sort()))
            st.assume(z3.ForAll([jj], z3.Implies(z3.And(0 <= jj, jj < n), mel[jj] == z3.substitute(et, (j, jj + base))),
                                patterns=[mel[jj]]))
            st.set_list(lty, r, n, mel)
            return SV(lty, r)
        # filter: ghost strictly increasing index map
        idx = z3.Function(fresh_name("fidx"), I, I)
        m = z3.Int(fresh_name("flen"))
        a, b2, i2 = z3.Int(fresh_name("a")), z3.Int(fresh_name("b")), z3.Int(fresh_name("i"))
        gi = lambda t: z3.substitute(g, (j, t))  # noqa
        st.assume(z3.And(0 <= m, m <= n))
        st.assume(z3.ForAll([a], z3.Implies(z3.And(0 <= a, a < m), z3.And(base <= idx(a), idx(a) < base + n, gi(idx(a))))))
        st.assume(z3.ForAll([a, b2], z3.Implies(z3.And(0 <= a, a < b2, b2 < m), idx(a) < idx(b2))))
        st.assume(z3.ForAll([i2], z3.Implies(gi(i2), z3.Exists([a], z3.And(0 <= a, a < m, idx(a) == i2)))))
        # a filter whose condition holds at every position keeps everything, in place (consequence of the three facts above by counting)
        bounds = z3.And(base <= i2, i2 < base + n)
        st.assume(z3.Implies(z3.ForAll([i2], z3.Implies(bounds, gi(i2))), z3.And(m == n, z3.ForAll([a], z3.Implies(z3.And(0 <= a, a < m), idx(a) == base + a)))))
        jj = z3.Int(fresh_name("j"))
        fel = z3.Const(fresh_name("filtel"), z3.ArraySort(I, ety.sort()))
        st.assume(z3.ForAll([jj], z3.Implies(z3.And(0 <= jj, jj < m), fel[jj] == z3.substitute(et, (j, idx(jj)))),
                            patterns=[fel[jj]]))
        st.set_list(lty, r, m, fel)
        if it.ty.kind == "list" and isinstance(node.elt, ast.Name) and isinstance(gen.target, ast.Name) \
                and node.elt.id == gen.target.id and it.ty == lty:
            # [x for x in L if c]: the result is a sub-list of L
            mf = self.list_mem(st, lty, r)
            mp = self.list_mem(st, it.ty, it.t)
            x = z3.Const(fresh_name("x"), ety.sort())
            st.assume(z3.ForAll([x], z3.Implies(mf[x], mp[x]), patterns=[mf[x]]))
            # ... that contains every element satisfying the condition
            pel = st.list_elems(it.ty, it.t)
            st.assume(z3.ForAll([i2], z3.Implies(gi(i2), mf[pel[i2]]), patterns=[pel[i2]]))
        st.ghost["_filter_%d" % getattr(node, "lineno", 0)] = SV(FUN, py=("filteridx", idx, m))
        if it.ty.kind == "list" and isinstance(node.elt, ast.Name) and isinstance(gen.target, ast.Name) and node.elt.id == gen.target.id:
            if not hasattr(self, "_filters") or getattr(self, "_filters_owner", None) is not self.cur_contract:
                self._filters, self._filters_owner = [], self.cur_contract
            self._filters.append((fel, m, st.list_elems(it.ty, it.t), n, gi))
        return SV(lty, r)

    def ev_DictComp(self, node, st, ctx):
        vars_, g, elt, it = self.comp_parts(node, st, ctx)
        kx, vx = elt.items
        if len(vars_) != 1 or kx.ty.kind not in ("str", "val"):
            raise Unsupported("dict comprehension form")
        kk = vars_[0]
        vty = vx.ty if vx.ty.kind in ("int", "str", "bool") and vx.none is None else VAL
        kty = kx.ty
        hint = self.hint_dict
        if hint is not None:
            kty, vty = hint.args
        dty = Dict(kty, vty)
        ksort = kty.sort()
        r = st.new_ref()
        kxt = self.coerce(kx, kty, st).t
        if kx.ty.kind == "str" and z3.eq(kx.t, kk):
            # key-preserving form {k: f(k, v) for k, v in d.items() if c}
            nk = z3.Const(fresh_name("k"), ksort)
            dom = z3.Lambda([nk], z3.substitute(g, (kk, nk)))
            vt = self.coerce(vx, vty, st).t
            val = z3.Lambda([nk], z3.If(z3.substitute(g, (kk, nk)), z3.substitute(vt, (kk, nk)), default_of(vty.sort())))
            st.set_dict(dty, r, dom, val)
            return SV(dty, r)
        # general: key computed from a list position; later positions win
        if it.ty.kind not in ("list", "enumerate"):
            raise Unsupported("dict comprehension with computed keys over %r" % it.ty)
        nk = z3.Const(fresh_name("k"), ksort)
        j = kk
        dom_a = z3.Const(fresh_name("dcdom"), z3.ArraySort(ksort, B))
        val_a = z3.Const(fresh_name("dcval"), z3.ArraySort(ksort, vty.sort()))
        vt = self.coerce(vx, vty, st).t
        j2 = z3.Int(fresh_name("j"))
        wit = z3.Function(fresh_name("dcwit"), ksort, I)
        # every position contributes its key; every key in the domain comes from a position
        st.assume(z3.ForAll([j], z3.Implies(g, dom_a[kxt]), patterns=[z3.substitute(kxt, (j, j))] if not z3.is_const(kxt) else None))
        st.assume(z3.ForAll([nk], z3.Implies(dom_a[nk], z3.And(z3.substitute(g, (j, wit(nk))), z3.substitute(kxt, (j, wit(nk))) == nk,
                                                               val_a[nk] == z3.substitute(vt, (j, wit(nk))),
                                                               z3.ForAll([j2], z3.Implies(z3.And(j2 > wit(nk), z3.substitute(g, (j, j2))),
                                                                                          z3.substitute(kxt, (j, j2)) != nk)))),
                            patterns=[dom_a[nk]]))
        st.assume(z3.ForAll([nk], z3.Implies(z3.Not(dom_a[nk]), val_a[nk] == default_of(vty.sort()))))
        st.set_dict(dty, r, dom_a, val_a)
        return SV(dty, r)

    # ------------------------------------------------------------------ calls
    def ev_Call(self, node, st, ctx):
        key = getattr(self, "site_map", {}).get(id(node))
        if key is not None and not ctx.spec:
            for i, spec in enumerate(self.cur_contract.sites[key]):
                if spec == "sort_key_injective":
                    continue  # generated by the sort model itself
                g = self.ev_spec(spec, st, old=self.entry, labels=self.labels)
                self.oblige(st, ctx, g, "site", "site[%s][%d]" % (key, i), node, "at call '%s': %s" % (key, spec))
        return self.ev_Call_(node, st, ctx)

    def joblib_map(self, node):
        """Parallel(...)(delayed(f)(args) for x in xs)  ->  [f(args) for x in xs]   (assumed contract of joblib: an
        order-preserving map; the worker's side effects on its arguments do not reach the caller only matters for
        callees that modify them, which the comprehension rule rejects)"""
        f = node.func
        if not (isinstance(f, ast.Call) and self.dotted(f.func) in ("Parallel", "joblib.Parallel")):
            return None
        if len(node.args) != 1 or not isinstance(node.args[0], ast.GeneratorExp):
            return None
        g = node.args[0]
        e = g.elt
        if not (isinstance(e, ast.Call) and isinstance(e.func, ast.Call) and self.dotted(e.func.func) in ("delayed", "joblib.delayed")
                and len(e.func.args) == 1):
            return None
        call = ast.Call(func=e.func.args[0], args=e.args, keywords=e.keywords)
        ast.copy_location(call, e)
        comp = ast.ListComp(elt=call, generators=g.generators)
        ast.copy_location(comp, node)
        ast.fix_missing_locations(comp)
        self.notes.add("joblib.Parallel(...)(delayed(f)(..) for ..) is read as the list [f(..) for ..] (order-preserving map: assumed contract of joblib)")
        return comp

    def ev_Call_(self, node, st, ctx):
        jm = self.joblib_map(node)
        if jm is not None:
            return self.ev(jm, st, ctx)
        f = node.func
        d = self.dotted(f) if isinstance(f, (ast.Attribute, ast.Name)) else None
        if d is not None:
            if any(d == p.rstrip(".") or d.startswith(p) for p in SKIP_CALL_PREFIXES):
                self.dropped.add(d)
                return mk_none()
            head = d.split(".")[0]
            if d in self.reg.externals and (head in st.locals or head in st.ghost):
                args = [self.ev(a, st, ctx) for a in node.args]
                kw = {k.arg: self.ev(k.value, st, ctx) for k in node.keywords}
                return self.reg.externals[d](self, st, ctx, args, kw, node)
            if head in st.locals and "." not in d and st.locals[head].ty.kind == "obj":
                c = self.reg.contracts.get("%s.__call__" % st.locals[head].ty.args[0])
                if c is not None:
                    return self.call_contract(c, st.locals[head], node, st, ctx)
            if head not in st.locals and head not in st.ghost:
                if ctx.spec:
                    h = getattr(self, "spec_" + d, None)
                    if h is not None:
                        return h(node, st, ctx)
                    if d in self.reg.specbuiltins:
                        return self.reg.specbuiltins[d](self, node, st, ctx)
                    if d in self.reg.specfuns:
                        return self.apply_specfun(d, [self.ev(a, st, ctx) for a in node.args], st)
                h = getattr(self, "bi_" + d.replace(".", "_"), None)
                if h is not None:
                    return h(node, st, ctx)
                if d in self.reg.externals:
                    args = [self.ev(a, st, ctx) for a in node.args]
                    kw = {k.arg: self.ev(k.value, st, ctx) for k in node.keywords}
                    return self.reg.externals[d](self, st, ctx, args, kw, node)
                if d in self.reg.contracts:
                    return self.call_contract(self.reg.contracts[d], None, node, st, ctx)
                # nested function defined in the current function: use its contract
                q = "%s.%s" % (self.cur_qual, d)
                if q in self.reg.contracts:
                    return self.call_contract(self.reg.contracts[q], None, node, st, ctx)
                if d in self.reg.classes:
                    return self.construct(d, node, st, ctx)
                if "." in d:
                    cv = self.class_const(d.rsplit(".", 1)[0])
                    if cv is not None:
                        return self.call_method(cv, d.rsplit(".", 1)[1], node, st, ctx)
                raise Unsupported("call to unmodelled function %s (line %s)" % (d, node.lineno))
        if isinstance(f, ast.Attribute):
            base = self.ev(f.value, st, ctx)
            return self.call_method(base, f.attr, node, st, ctx)
        fv = self.ev(f, st, ctx)
        if fv.ty.kind == "obj":
            c = self.reg.contracts.get("%s.__call__" % fv.ty.args[0])
            if c is not None:
                return self.call_contract(c, fv, node, st, ctx)
        raise Unsupported("call of computed function (line %s)" % node.lineno)

    def args_of(self, node, st, ctx):
        return [self.ev(a, st, ctx) for a in node.args]

    # ---- python builtins -------------------------------------------------------------
    def bi_len(self, node, st, ctx):
        (x,) = self.args_of(node, st, ctx)
        return mk_int(self.length(x, st))

    def length(self, x, st):
        k = x.ty.kind
        if k == "list":
            return st.list_len(x.ty, x.t)
        if k == "str":
            return z3.Length(x.t)
        if k == "tuple":
            return z3.IntVal(len(x.items))
        if k == "strlist":
            return self.split_len(x.py[0], x.py[1], st)
        if k in ("dict", "keys", "items", "values"):
            d = x if k == "dict" else x.py
            return self.card(d, st)
        if k == "val":
            # len(row value): list or string stored in a row
            return self.uf("len_val", [Val], I)(x.t)
        if k == "obj":
            f = self.uf("len_obj_" + x.ty.args[0], [I], I)
            st.assume(f(x.t) >= 0)
            return f(x.t)
        raise Unsupported("len of %r" % x.ty)

    def card(self, d, st):
        """|dom(d)| as an uninterpreted function of the domain array with the facts needed for 0/1 tests"""
        dom = st.dict_dom(d.ty, d.t)
        ks = d.ty.args[0].sort()
        f = self.uf("card_" + str(ks), [z3.ArraySort(ks, B)], I)
        c = f(dom)
        k1, k2 = z3.Const(fresh_name("k"), ks), z3.Const(fresh_name("k"), ks)
        st.assume(c >= 0)
        st.assume((c == 0) == z3.Not(z3.Exists([k1], dom[k1])))
        st.assume((c == 1) == z3.Exists([k1], z3.And(dom[k1], z3.ForAll([k2], z3.Implies(dom[k2], k2 == k1)))))
        return c

    def bi_abs(self, node, st, ctx):
        (x,) = self.args_of(node, st, ctx)
        x = self.num(x, st)
        return SV(x.ty, z3.If(x.t >= 0, x.t, -x.t))

    def bi_int(self, node, st, ctx):
        (x,) = self.args_of(node, st, ctx)
        if x.ty.kind in ("int", "bool"):
            return self.num(x, st)
        if x.ty.kind == "val":
            # int(row[id]) : ids are ints or decimal strings
            f = self.uf("int_of_val", [Val], I)
            st.assume(z3.Implies(Val.is_VInt(x.t), f(x.t) == Val.i(x.t)))
            st.assume(z3.Implies(z3.And(Val.is_VStr(x.t), z3.StrToInt(Val.s(x.t)) >= 0),
                                 f(x.t) == z3.StrToInt(Val.s(x.t))))
            return mk_int(f(x.t))
        if x.ty.kind == "str":
            ctx.exc(z3.StrToInt(x.t) < 0, "ValueError", node)  # non-numeric (negative literals not modelled)
            return mk_int(z3.StrToInt(x.t))
        raise Unsupported("int() of %r" % x.ty)

    def bi_str(self, node, st, ctx):
        (x,) = self.args_of(node, st, ctx)
        if x.ty.kind == "exc":
            return mk_str(x.t)
        if x.ty.kind == "val":
            f = self.uf("str_of_val", [Val], S)
            st.assume(z3.Implies(Val.is_VStr(x.t), f(x.t) == Val.s(x.t)))
            return mk_str(f(x.t))
        return mk_str(self.to_str(x))

    def bi_bool(self, node, st, ctx):
        (x,) = self.args_of(node, st, ctx)
        return mk_bool(self.truthy(x, st))

    def bi_isinstance(self, node, st, ctx):
        x = self.ev(node.args[0], st, ctx)
        tn = self.dotted(node.args[1])
        tmap = {"str": STR, "int": INT, "bool": BOOL, "float": REAL}
        if x.ty.kind == "val":
            if tn in tmap:
                return mk_bool(val_is(x.t, tmap[tn]))
            if tn in ("dict", "list"):
                return mk_bool(z3.And(Val.is_VRef(x.t), self.uf("ref_is_" + tn, [I], B)(Val.ref(x.t))))
            raise Unsupported("isinstance(%s)" % tn)
        notnone = z3.Not(self.is_none(x))
        if tn in tmap:
            return mk_bool(z3.And(notnone, z3.BoolVal(x.ty == tmap[tn])))
        if tn in ("dict", "list"):
            return mk_bool(z3.And(notnone, z3.BoolVal(x.ty.kind == tn)))
        if x.ty.kind == "obj":
            return mk_bool(z3.And(notnone, z3.BoolVal(x.ty.args[0] == tn.split(".")[-1])))
        return mk_bool(False)

    def _quant(self, node, st, ctx, is_all):
        (a,) = node.args
        if isinstance(a, (ast.GeneratorExp, ast.ListComp)):
            vars_, g, elt, _ = self.comp_parts(a, st, ctx)
            body = self.truthy(elt, st)
            return mk_bool(z3.ForAll(vars_, z3.Implies(g, body)) if is_all else z3.Exists(vars_, z3.And(g, body)))
        x = self.ev(a, st, ctx)
        vars_, g, bound = self.iter_binder(x, st, ctx, None)
        body = self.truthy(bound[0], st)
        return mk_bool(z3.ForAll(vars_, z3.Implies(g, body)) if is_all else z3.Exists(vars_, z3.And(g, body)))

    def bi_all(self, node, st, ctx):
        return self._quant(node, st, ctx, True)

    def bi_any(self, node, st, ctx):
        return self._quant(node, st, ctx, False)

    def _minmax(self, node, st, ctx, is_min):
        if len(node.args) == 1 and isinstance(node.args[0], (ast.GeneratorExp, ast.ListComp)):
            vars_, g, elt, _ = self.comp_parts(node.args[0], st, ctx)
            e = self.num(elt, st)
            m = z3.Const(fresh_name("m"), e.ty.sort())
            ctx.exc(z3.Not(z3.Exists(vars_, g)), "ValueError", node)
            st.assume(z3.Implies(z3.Exists(vars_, g), z3.And(
                z3.Exists(vars_, z3.And(g, m == e.t)),
                z3.ForAll(vars_, z3.Implies(g, (m <= e.t) if is_min else (m >= e.t))))))
            return SV(e.ty, m)
        args = [self.num(a, st) for a in self.args_of(node, st, ctx)]
        if len(args) < 2:
            raise Unsupported("min/max of a single non-generator argument")
        r = args[0]
        for a in args[1:]:
            if a.ty != r.ty:
                raise Unsupported("min/max over mixed types")
            r = SV(r.ty, z3.If((a.t < r.t) if is_min else (a.t > r.t), a.t, r.t))
        return r

    def bi_min(self, node, st, ctx):
        return self._minmax(node, st, ctx, True)

    def bi_max(self, node, st, ctx):
        return self._minmax(node, st, ctx, False)

    def spec_sumto(self, node, st, ctx):
        """sumto(n, (e for x in L if c)): the sum over the first n elements only (a prefix of the full sum)"""
        n = self.num(self.ev(node.args[0], st, ctx), st).t
        return self.sum_core(node.args[1], node, st, ctx, upto=n)

    def bi_sum(self, node, st, ctx):
        (a,) = node.args
        return self.sum_core(a, node, st, ctx)

    def sum_core(self, a, node, st, ctx, upto=None):
        if not isinstance(a, (ast.GeneratorExp, ast.ListComp)):
            raise Unsupported("sum of non-comprehension")
        vars_, g, elt, it = self.comp_parts(a, st, ctx)
        if it.ty.kind not in ("list", "strlist", "range"):
            raise Unsupported("sum over %r" % it.ty)
        e = self.num(elt, st)
        j = vars_[0]
        if it.ty.kind == "range":
            lo, hi = it.py
            if not (z3.is_int_value(z3.simplify(lo)) and z3.simplify(lo).as_long() == 0):
                raise Unsupported("sum over a range that does not start at 0")
            n = z3.If(hi < 0, 0, hi)
        else:
            n = self.length(it, st)
        full_n = n
        if upto is not None:
            n = upto
        # the partial-sum function is named after the summand (with the bound variable renamed canonically), so that the
        # same sum written in the code and in a specification is the same term
        import hashlib
        summand = z3.If(g, e.t, 0)
        # the partial-sum function has one argument (the prefix length): a sum that varies with a variable bound by an enclosing
        # quantifier or comprehension would need that variable as a parameter - outside the subset (sound: refused, never mis-encoded)
        enclosing = [v for vs in getattr(self, "_bound_stack", []) for v in vs]
        if enclosing:
            fc = self.free_consts(summand) + self.free_consts(n)
            deps = [v for v in enclosing if any(x.eq(v) for x in fc)]
            if deps:
                # the sum varies with variables bound by enclosing quantifiers / comprehensions: they become parameters of the
                # partial-sum function (the facts below are generalised over them by the enclosing binder)
                place = [z3.Const("__B%d" % i, d.sort()) for i, d in enumerate(deps)]
                canon = z3.substitute(summand, (j, z3.Int("__J")), *list(zip(deps, place)))
                psf = z3.Function("psumd_" + hashlib.md5(canon.sexpr().encode()).hexdigest()[:12], *([d.sort() for d in deps] + [I, I]))
                jj = z3.Int(fresh_name("j"))
                st.assume(psf(*(deps + [z3.IntVal(0)])) == 0)
                st.assume(z3.ForAll([jj], z3.Implies(z3.And(0 <= jj, jj < n), psf(*(deps + [jj + 1])) == psf(*(deps + [jj])) + z3.If(
                    z3.substitute(g, (j, jj)), z3.substitute(e.t, (j, jj)), 0))))
                return mk_int(psf(*(deps + [n])))
        canon = z3.substitute(summand, (j, z3.Int("__J")))
        ps = z3.Function("psum_" + hashlib.md5(canon.sexpr().encode()).hexdigest()[:12], I, I)
        jj = z3.Int(fresh_name("j"))
        st.assume(ps(0) == 0)
        st.assume(z3.ForAll([jj], z3.Implies(z3.And(0 <= jj, jj < n), ps(jj + 1) == ps(jj) + z3.If(
            z3.substitute(g, (j, jj)), z3.substitute(e.t, (j, jj)), 0))))
        # sums with pointwise equal summands over the same length are equal (induction over the length; a trusted lemma of
        # the encoding, instantiated for every pair of sums met while one function is verified)
        if not hasattr(self, "_psums") or self._psums_owner is not self.cur_contract:
            self._psums, self._psums_owner = [], self.cur_contract
        lam = (j, summand)
        for (ps2, (j2, s2), n2) in self._psums:
            if ps2.eq(ps):
                continue
            self.pair_lemma(ps, j, summand, n, ps2, j2, s2, n2)
        self._psums.append((ps, lam, n))
        self.filter_sum_lemma(ps, j, summand, n, full_n, it, st)
        st.ghost["_psum_%d_%d" % (node.lineno, node.col_offset)] = SV(FUN, py=("psum", ps, n))
        return mk_int(ps(n))

    def pair_lemma(self, ps, j, s1, n, ps2, j2, s2, n2):
        """partial sums with pointwise equal summands below m are equal at m - instantiated at the two prefix lengths at hand
        (so a counter invariant survives heap changes that leave the rows counted so far alone)"""
        for m in ([n] if n.eq(n2) else [n, n2]):
            q = z3.Int(fresh_name("q"))
            self.sum_lemmas.append((ps.name(), ps2.name(), z3.Implies(
                z3.And(0 <= m, z3.ForAll([q], z3.Implies(z3.And(0 <= q, q < m), z3.substitute(s1, (j, q)) == z3.substitute(s2, (j2, q))))),
                ps(m) == ps2(m))))

    def filter_sum_lemma(self, ps, j, summand, n, full_n, it, st):
        """a sum over a list F that a filter comprehension [x for x in L if c(x)] produced equals the sum over L of the same
        summand under the condition c (induction over L; a trusted lemma of the encoding).  Applicable when the summand depends
        on the position only through the element F[j]."""
        if it.ty.kind != "list" or not hasattr(self, "_filters") or os.environ.get("PYVC_NO_FILTER_LEMMA"):
            return
        fe = st.list_elems(it.ty, it.t)
        fe_s = z3.simplify(fe)
        for (fel, m, pel, pn, gi) in self._filters:
            if not (fel.eq(fe_s) or fel.eq(fe)):
                continue
            jj = z3.Int(fresh_name("j"))
            marker = z3.Const(fresh_name("elem"), fel.sort().range())
            body = z3.substitute(z3.substitute(summand, (fe[j], marker)), (fel[j], marker))
            # the position bounds of the filtered list hold for every j below its length
            body = z3.substitute(body, (0 <= j, z3.BoolVal(True)), (j < full_n, z3.BoolVal(True)))
            if any(x.eq(j) for x in self.free_consts(body)):
                return  # the summand also depends on the position itself
            src = z3.If(gi(jj), z3.substitute(body, (marker, pel[jj])), 0)
            # drop the position bound of the filtered list from the summand (it held for every j < m)
            import hashlib
            canon = z3.substitute(src, (jj, z3.Int("__J")))
            ps2 = z3.Function("psum_" + hashlib.md5(canon.sexpr().encode()).hexdigest()[:12], I, I)
            q = z3.Int(fresh_name("q"))
            st.assume(ps2(0) == 0)
            st.assume(z3.ForAll([q], z3.Implies(z3.And(0 <= q, q < pn), ps2(q + 1) == ps2(q) + z3.substitute(src, (jj, q)))))
            self.facts.append(z3.Implies(n == m, ps(n) == ps2(pn)))
            for (ps3, (j3, s3), n3) in list(self._psums):
                if ps3.eq(ps2):
                    continue
                self.pair_lemma(ps2, jj, src, pn, ps3, j3, s3, n3)
            self._psums.append((ps2, (jj, src), pn))
            self.notes.add("sum over a filtered list related to the sum over its source list (filter-sum lemma of the encoding)")
            return

    def binder_audit(self, f, vars_, mark, node):
        """a fact assumed while the body of a binder was evaluated is generalised over the bound variables; if it constrains a
        constant that was created inside the body *and* mentions a bound variable, that constant would have to be a function of
        the variable (a Skolem function) - generalising it as a constant is unsound, so such bodies are refused"""
        fc = self.free_consts(f)
        if not any(x.eq(v) for x in fc for v in vars_):
            return
        for x in fc:
            if any(x.eq(v) for v in vars_):
                continue
            nm = x.decl().name()
            if nm.startswith("alloc!"):
                continue  # the allocation bound after a call: one constant above the objects of every binding (an upper bound, not a definition)
            if "!" in nm:
                try:
                    k = int(nm.rsplit("!", 1)[1])
                except ValueError:
                    continue
                if k > mark:
                    if os.environ.get("PYVC_BINDER_AUDIT") == "log":
                        import sys
                        print("BINDER-AUDIT %s line %s const %s" % (self.cur_qual, getattr(node, "lineno", "?"), nm), file=sys.stderr)
                        return
                    raise Unsupported("a constant (%s) is defined inside a binder in terms of the bound variable (line %s)"
                                      % (nm, getattr(node, "lineno", "?")))

    def free_consts(self, t):
        out, seen, todo = [], set(), [t]
        while todo:
            x = todo.pop()
            if x.get_id() in seen:
                continue
            seen.add(x.get_id())
            if z3.is_const(x) and x.decl().kind() == z3.Z3_OP_UNINTERPRETED:
                out.append(x)
            elif z3.is_quantifier(x):
                todo.append(x.body())
            else:
                todo.extend(x.children())
        return out

    def bi_list(self, node, st, ctx):
        if not node.args:
            return self.new_list(st, self.hint_elem or VAL, [])
        (x,) = self.args_of(node, st, ctx)
        if x.ty.kind == "list":
            r = st.new_ref()
            st.set_list(x.ty, r, st.list_len(x.ty, x.t), st.list_elems(x.ty, x.t))
            return SV(x.ty, r)
        if x.ty.kind in ("keys", "dict"):
            # order of keys is arbitrary: a list that enumerates dom exactly once
            d = x if x.ty.kind == "dict" else x.py
            return self.keys_list(d, st)
        if x.ty.kind == "strlist":
            return self.materialize_split(x, st)
        raise Unsupported("list(%r)" % x.ty)

    def keys_list(self, d, st):
        kty = d.ty.args[0]
        lty = List(kty)
        r = st.new_ref()
        n = z3.Int(fresh_name("nkeys"))
        el = z3.Const(fresh_name("keys"), z3.ArraySort(I, kty.sort()))
        dom = st.dict_dom(d.ty, d.t)
        a, b2 = z3.Int(fresh_name("a")), z3.Int(fresh_name("b"))
        kk = z3.Const(fresh_name("k"), kty.sort())
        st.assume(n >= 0)
        st.assume(z3.ForAll([a], z3.Implies(z3.And(0 <= a, a < n), dom[el[a]])))
        st.assume(z3.ForAll([a, b2], z3.Implies(z3.And(0 <= a, a < b2, b2 < n), el[a] != el[b2])))
        st.assume(z3.ForAll([kk], z3.Implies(dom[kk], z3.Exists([a], z3.And(0 <= a, a < n, el[a] == kk)))))
        st.set_list(lty, r, n, el)
        return SV(lty, r)

    def bi_dict(self, node, st, ctx):
        if not node.args:
            return self.new_dict(st, self.hint_dict or Dict(STR, VAL), [], [])
        (x,) = self.args_of(node, st, ctx)
        if x.ty.kind == "dict":
            return self.dict_copy(x, st)
        raise Unsupported("dict(%r)" % x.ty)

    def dict_copy(self, x, st):
        r = st.new_ref()
        st.set_dict(x.ty, r, st.dict_dom(x.ty, x.t), st.dict_val(x.ty, x.t))
        return SV(x.ty, r)

    def bi_defaultdict(self, node, st, ctx):
        if len(node.args) == 1 and isinstance(node.args[0], ast.Name) and node.args[0].id == "int":
            d = self.new_dict(st, COMP, [], [])
            d.py = "defaultdict"
            return d
        raise Unsupported("defaultdict form")

    def bi_enumerate(self, node, st, ctx):
        (x,) = self.args_of(node, st, ctx)
        return SV(Ty("enumerate"), py=x)

    def bi_zip(self, node, st, ctx):
        return SV(Ty("zip"), py=self.args_of(node, st, ctx))

    def bi_range(self, node, st, ctx):
        a = [self.num(x, st).t for x in self.args_of(node, st, ctx)]
        if len(a) == 1:
            return SV(Ty("range"), py=(z3.IntVal(0), a[0]))
        if len(a) == 2:
            return SV(Ty("range"), py=(a[0], a[1]))
        raise Unsupported("range with step")

    def bi_next(self, node, st, ctx):
        """next(it) on a ghost iterator object Iter{seq: list, pos: int};
        next((x for x in L if c), default): the first element of L satisfying c, else the default"""
        if len(node.args) == 2 and isinstance(node.args[0], ast.GeneratorExp):
            g = node.args[0]
            gen = g.generators[0]
            vars_, cond, elt, it = self.comp_parts(g, st, ctx)
            if it.ty.kind != "list" or not (isinstance(g.elt, ast.Name) and isinstance(gen.target, ast.Name) and g.elt.id == gen.target.id):
                raise Unsupported("next() over this generator form")
            dflt = self.ev(node.args[1], st, ctx)
            j = vars_[0]
            n = st.list_len(it.ty, it.t)
            e = st.list_elems(it.ty, it.t)
            p = z3.Int(fresh_name("first"))
            q = z3.Int(fresh_name("q"))
            found = z3.Exists([j], cond)
            st.assume(z3.Implies(found, z3.And(0 <= p, p < n, z3.substitute(cond, (j, p)),
                                               z3.ForAll([q], z3.Implies(z3.And(0 <= q, q < p), z3.Not(z3.substitute(cond, (j, q))))))))
            st.ghost["_first_%d" % node.lineno] = mk_int(p)
            val = self.wrap(e[p], it.ty.args[0])
            return self.ite(found, val, dflt, st)
        (it,) = self.args_of(node, st, ctx)
        if it.ty != Obj("Iter"):
            raise Unsupported("next() on %r" % it.ty)
        decl = self.reg.classes["Iter"]["fields"]
        seq = self.getattr_sv(it, "seq", st, ctx, node)
        pos = self.getattr_sv(it, "pos", st, ctx, node)
        n = st.list_len(seq.ty, seq.t)
        ctx.exc(pos.t >= n, "StopIteration", node)
        v = self.wrap(st.list_elems(seq.ty, seq.t)[pos.t], seq.ty.args[0])
        st.set_field("Iter", "pos", decl["pos"], it.t, pos.t + 1)
        return v

    def bi_sorted(self, node, st, ctx):
        """sorted(list, key=..., reverse=...): a fresh list with the same length and the same members (the order is
        left unspecified: nothing proved may depend on it); the key function is not evaluated"""
        x = self.ev(node.args[0], st, ctx)
        if x.ty.kind != "list":
            raise Unsupported("sorted(%r)" % x.ty)
        self.sort_key_obligation(node, x.ty.args[0], st, ctx)
        if any(k.arg == "key" for k in node.keywords):
            self.notes.add("sorted(): the key function is not evaluated (assumed not to raise); only 'same members, same length' is used")
        r = st.new_ref()
        n = st.list_len(x.ty, x.t)
        el = z3.Const(fresh_name("sorted"), z3.ArraySort(I, x.ty.args[0].sort()))
        st.set_list(x.ty, r, n, el)
        res = SV(x.ty, r)
        mo = self.list_mem(st, x.ty, x.t)
        mn = self.list_mem(st, x.ty, r)
        st.assume(mo == mn)
        if x.ty.args[0].is_ref:
            j = z3.Int(fresh_name("j"))
            st.assume(z3.ForAll([j], z3.Implies(z3.And(0 <= j, j < n), z3.And(0 <= el[j], el[j] < st.alloc)), patterns=[el[j]]))
        return res

    # ---- value sets: set() / frozenset(generator) held in a local that is only tested with `in` and grown with .add ----
    def _mkset(self, node, st, ctx):
        if node.keywords or len(node.args) > 1:
            raise Unsupported("set() with keywords")
        if not node.args:
            ety = getattr(self, "hint_set", None)
            if ety is None:
                raise Unsupported("set() without a declared element type (line %s)" % node.lineno)
            return SV(SetT(ety), z3.K(ety.sort(), z3.BoolVal(False)))
        arg = node.args[0]
        if not isinstance(arg, (ast.GeneratorExp, ast.ListComp)):
            raise Unsupported("set(<%s>) (line %s)" % (type(arg).__name__, node.lineno))
        vars_, g, elt, _ = self.comp_parts(arg, st, ctx)
        if elt.ty.kind == "tuple":
            term = tuple_term(elt)
        elif elt.ty.kind in ("int", "str", "bool") and elt.none is None:
            term = elt.t
        else:
            raise Unsupported("set of %r (line %s)" % (elt.ty, node.lineno))
        self.notes.add("set()/frozenset() values are mathematical sets of their (hashable, immutable) elements")
        t = z3.Const(fresh_name("sx"), elt.ty.sort())
        # {elt | binding satisfies the guard}: membership is existence of a binding
        return SV(SetT(elt.ty), z3.Lambda([t], z3.Exists(vars_, z3.And(g, term == t))))

    def bi_set(self, node, st, ctx):
        return self._mkset(node, st, ctx)

    def bi_frozenset(self, node, st, ctx):
        return self._mkset(node, st, ctx)

    def set_local_ok(self, name):
        """value semantics for a set held in a local are exact only if the object has no second name: every use of the
        local in the function must be `x in name`, `x not in name`, `name.add(..)` or its (re)binding"""
        fn = getattr(self, "cur_fn_node", None)
        if fn is None:
            return False
        parents = {}
        for n in ast.walk(fn):
            for ch in ast.iter_child_nodes(n):
                parents[id(ch)] = n
        for n in ast.walk(fn):
            if isinstance(n, ast.Name) and n.id == name and isinstance(n.ctx, ast.Load):
                p = parents.get(id(n))
                if isinstance(p, ast.Compare) and n in p.comparators and all(isinstance(o, (ast.In, ast.NotIn)) for o in p.ops):
                    continue
                if isinstance(p, ast.Attribute) and p.attr == "add" and isinstance(parents.get(id(p)), ast.Call) and parents[id(p)].func is p:
                    continue
                return False
        return True

    def m_set_add(self, base, node, st, ctx):
        tgt = node.func.value
        if not isinstance(tgt, ast.Name) or tgt.id not in st.locals or not self.set_local_ok(tgt.id):
            raise Unsupported("set.add on a set that may have a second name (line %s)" % node.lineno)
        (x,) = self.args_of(node, st, ctx)
        ety = base.ty.args[0]
        if x.ty != ety:
            if x.ty.kind == "tuple" and ety.kind == "tuple":
                xt = tuple_term(x)
            else:
                raise Unsupported("set.add(%r) on %r" % (x.ty, base.ty))
        else:
            xt = tuple_term(x) if x.ty.kind == "tuple" else x.t
        st.locals[tgt.id] = SV(base.ty, z3.Store(base.t, xt, z3.BoolVal(True)))
        return mk_none()

    def bi_iter(self, node, st, ctx):
        """iter(list): a ghost iterator object over the list (class 'Iter' for lists of values, 'RowIter' for lists of rows,
        when the contracts declare them): the underlying sequence and the number of items consumed so far"""
        (x,) = self.args_of(node, st, ctx)
        if x.ty.kind != "list":
            raise Unsupported("iter(%r)" % x.ty)
        cls = "RowIter" if x.ty == List(ROW) else "Iter"
        decl = self.reg.classes.get(cls)
        if decl is None or decl["fields"].get("seq") != x.ty:
            raise Unsupported("iter() over %r (no ghost iterator class declared)" % x.ty)
        r = st.new_ref()
        st.set_field(cls, "seq", x.ty, r, x.t)
        st.set_field(cls, "pos", INT, r, z3.IntVal(0))
        return SV(Obj(cls), r)

    def bi_type(self, node, st, ctx):
        (x,) = self.args_of(node, st, ctx)
        return mk_str(self.uf("type_name", [Val], S)(box(x)) if x.ty.kind != "tuple" else z3.StringVal("tuple"))

    # ---- methods on typed values ------------------------------------------------------
    def call_method(self, base, name, node, st, ctx):
        k = base.ty.kind
        h = getattr(self, "m_%s_%s" % (k, name), None)
        if h is None:
            ext = getattr(self.reg, "methods", {}).get("m_%s_%s" % (k, name))
            if ext is not None:
                import functools
                h = functools.partial(ext, self)
        if h is not None:
            if base.none is not None and not ctx.spec:
                ctx.exc(base.none, "AttributeError", node)
            return h(base, node, st, ctx)
        if k == "obj":
            q = "%s.%s" % (base.ty.args[0], name)
            c = self.reg.contracts.get(q)
            if c is None:
                raise Unsupported("no contract for %s (line %s)" % (q, node.lineno))
            if base.none is not None:
                ctx.exc(base.none, "AttributeError", node)
            return self.call_contract(c, base, node, st, ctx)
        if k == "val":
            if name == "get":
                # value.get(key, default): a dictionary stored as a row value (anything else has no .get: AttributeError)
                ctx.exc(z3.Not(Val.is_VRef(base.t)), "AttributeError", node)
                return self.m_dict_get(SV(ROW, Val.ref(base.t)), node, st, ctx)
            # other methods on untyped row values: strings only
            if hasattr(self, "m_str_" + name):
                return self.call_method(self.coerce(base, STR, st), name, node, st, ctx)
        if k == "fun" and base.py and base.py[0] == "name":
            d = base.py[1] + "." + name
            raise Unsupported("call to unmodelled function %s (line %s)" % (d, node.lineno))
        raise Unsupported("method %s on %r (line %s)" % (name, base.ty, node.lineno))

    # class-level constant dictionaries read from the real source (e.g. RSMIDecomposer.atomic_symbols)
    def m_pyconst_get(self, base, node, st, ctx):
        args = self.args_of(node, st, ctx)
        table = base.py
        if not isinstance(table, dict) or not args:
            raise Unsupported("get on a constant that is not a dictionary")
        key = args[0]
        dflt = args[1] if len(args) > 1 else mk_none()
        res = dflt
        for k, v in reversed(list(table.items())):
            if isinstance(k, bool) or not isinstance(k, (int, str)):
                raise Unsupported("constant table with key %r" % (k,))
            kv = mk_int(k) if isinstance(k, int) else mk_str(k)
            res = self.ite(self.eq(key, kv, st), self.const_sv(v, st), res, st)
        return res

    # real numbers (numpy scalars)
    def m_real_item(self, base, node, st, ctx):
        return base

    def m_exc___str__(self, base, node, st, ctx):
        return mk_str(base.t)

    # dict
    def m_dict_keys(self, base, node, st, ctx):
        return SV(Ty("keys"), py=base)

    def m_dict_items(self, base, node, st, ctx):
        return SV(Ty("items"), py=base)

    def m_dict_values(self, base, node, st, ctx):
        return SV(Ty("values"), py=base)

    def m_dict_get(self, base, node, st, ctx):
        args = self.args_of(node, st, ctx)
        key = self.coerce(args[0], base.ty.args[0], st)
        dom = st.dict_dom(base.ty, base.t)[key.t]
        v = self.wrap(st.dict_val(base.ty, base.t)[key.t], base.ty.args[1])
        dflt = args[1] if len(args) > 1 else mk_none()
        return self.ite(dom, v, dflt, st)

    def m_dict_copy(self, base, node, st, ctx):
        return self.dict_copy(base, st)

    def m_dict_pop(self, base, node, st, ctx):
        args = self.args_of(node, st, ctx)
        key = self.coerce(args[0], base.ty.args[0], st)
        dom = st.dict_dom(base.ty, base.t)
        val = st.dict_val(base.ty, base.t)
        v = self.wrap(val[key.t], base.ty.args[1])
        if len(args) == 1:
            ctx.exc(z3.Not(dom[key.t]), "KeyError", node)
            res = v
        else:
            res = self.ite(dom[key.t], v, args[1], st)
        self.dict_del(base, key.t, st)
        return res

    def dict_del(self, base, kt, st):
        dom = st.dict_dom(base.ty, base.t)
        val = st.dict_val(base.ty, base.t)
        vs = base.ty.args[1]
        dflt = default_of(vs.sort()) if not vs.is_ref else z3.IntVal(-1)
        st.set_dict(base.ty, base.t, z3.Store(dom, kt, z3.BoolVal(False)), z3.Store(val, kt, dflt))

    def dict_set(self, base, kt, vt, st):
        dom = st.dict_dom(base.ty, base.t)
        val = st.dict_val(base.ty, base.t)
        st.set_dict(base.ty, base.t, z3.Store(dom, kt, z3.BoolVal(True)), z3.Store(val, kt, vt))

    def m_dict_update(self, base, node, st, ctx):
        (o,) = self.args_of(node, st, ctx)
        if o.ty != base.ty:
            raise Unsupported("dict.update with different type")
        kk = z3.Const(fresh_name("k"), base.ty.args[0].sort())
        d1, v1 = st.dict_dom(base.ty, base.t), st.dict_val(base.ty, base.t)
        d2, v2 = st.dict_dom(o.ty, o.t), st.dict_val(o.ty, o.t)
        st.set_dict(base.ty, base.t, z3.Lambda([kk], z3.Or(d1[kk], d2[kk])), z3.Lambda([kk], z3.If(d2[kk], v2[kk], v1[kk])))
        return mk_none()

    # list
    def m_list_append(self, base, node, st, ctx):
        (x,) = self.args_of(node, st, ctx)
        n = st.list_len(base.ty, base.t)
        e = st.list_elems(base.ty, base.t)
        st.set_list(base.ty, base.t, n + 1, z3.Store(e, n, self.coerce(x, base.ty.args[0], st).t))
        return mk_none()

    def m_list_extend(self, base, node, st, ctx):
        (x,) = self.args_of(node, st, ctx)
        if x.ty != base.ty:
            raise Unsupported("extend with %r" % x.ty)
        n = st.list_len(base.ty, base.t)
        e = st.list_elems(base.ty, base.t)
        m = st.list_len(x.ty, x.t)
        e2 = st.list_elems(x.ty, x.t)
        j = z3.Int(fresh_name("j"))
        st.set_list(base.ty, base.t, n + m, self.named_array(st, j, z3.If(j < n, e[j], e2[j - n]), "ext"))
        return mk_none()

    def obj_equal(self, ty, a, b, st):
        """python == on two elements of a list (records compare by content)"""
        if ty.kind == "obj":
            decl = self.reg.classes.get(ty.args[0])
            if decl is None or not decl.get("record"):
                return a == b
            cs = []
            for f, fty in decl["fields"].items():
                fa, fb = st.field(ty.args[0], f, fty, a), st.field(ty.args[0], f, fty, b)
                if fty.kind == "dict":
                    cs.append(z3.And(st.dict_dom(fty, fa) == st.dict_dom(fty, fb), st.dict_val(fty, fa) == st.dict_val(fty, fb)))
                elif fty.is_ref:
                    raise Unsupported("equality of records with list fields")
                else:
                    cs.append(fa == fb)
            return z3.And(*cs)
        if ty.is_ref:
            raise Unsupported("list.remove on a list of %r" % ty)
        return a == b

    def m_list_remove(self, base, node, st, ctx):
        """list.remove(x): removes the first element equal to x (ValueError if there is none)"""
        (x,) = self.args_of(node, st, ctx)
        ety = base.ty.args[0]
        xv = self.coerce(x, ety, st)
        n = st.list_len(base.ty, base.t)
        e = st.list_elems(base.ty, base.t)
        j, q, p = z3.Int(fresh_name("j")), z3.Int(fresh_name("q")), z3.Int(fresh_name("rm"))
        eqj = self.obj_equal(ety, e[j], xv.t, st)
        found = z3.Exists([j], z3.And(0 <= j, j < n, eqj))
        ctx.exc(z3.Not(found), "ValueError", node)
        st.assume(z3.Implies(found, z3.And(0 <= p, p < n, z3.substitute(eqj, (j, p)),
                                           z3.ForAll([q], z3.Implies(z3.And(0 <= q, q < p), z3.Not(z3.substitute(eqj, (j, q))))))))
        new = z3.Const(fresh_name("removed"), e.sort())
        st.assume(z3.ForAll([q], z3.Implies(z3.And(0 <= q, q < n - 1), new[q] == z3.If(q < p, e[q], e[q + 1])), patterns=[new[q]]))
        st.set_list(base.ty, base.t, n - 1, new)
        st.ghost["_removed_%d" % node.lineno] = mk_int(p)
        return mk_none()

    def sort_key_obligation(self, node, ety, st, ctx):
        """the key of a sort is injective on the elements: key(x) == key(y) implies x == y, so that the sorted list is
        determined by the multiset of elements (no input order leaks through ties).  Key components the subset cannot
        evaluate are abstracted as uninterpreted functions of the element (sound for the proof direction)."""
        key = getattr(self, "site_map", {}).get(id(node))
        if key is None or "sort_key_injective" not in self.cur_contract.sites[key]:
            return
        kf = None
        for k in node.keywords:
            if k.arg == "key":
                kf = k.value
        x = z3.Const(fresh_name("kx"), ety.sort())
        y = z3.Const(fresh_name("ky"), ety.sort())
        if kf is None or (isinstance(kf, ast.Constant) and kf.value is None):
            same = x == y
        else:
            if not isinstance(kf, ast.Lambda) or len(kf.args.args) != 1:
                raise Unsupported("sort key that is not a one-parameter lambda (line %s)" % node.lineno)
            pname = kf.args.args[0].arg
            comps = kf.body.elts if isinstance(kf.body, ast.Tuple) else [kf.body]
            U = z3.DeclareSort("KeyPart")
            eqs = []
            for cnode in comps:
                vals = []
                for v in (x, y):
                    st2 = st.copy()
                    st2.writes = None
                    st2.locals[pname] = SV(ety, v)
                    try:
                        sv = self.ev(cnode, st2, ctx)
                        if sv.ty.kind in ("tuple", "gen", "fun"):
                            raise Unsupported("structured key component")
                        vals.append(box(sv))
                    except Unsupported:
                        free = {n.id for n in ast.walk(cnode) if isinstance(n, ast.Name) and n.id in st.locals and n.id != pname}
                        if free:
                            raise Unsupported("sort key component reads locals %r (line %s)" % (sorted(free), node.lineno))
                        uf = z3.Function("KEYPART<%s>" % ast.unparse(cnode), ety.sort(), U)
                        self.notes.add("sort key component %r abstracted as an uninterpreted function of the element" % ast.unparse(cnode))
                        vals.append(uf(v))
                eqs.append(vals[0] == vals[1] if vals[0].sort() == vals[1].sort() else z3.BoolVal(False))
            same = z3.Implies(z3.And(*eqs), x == y)
        self.oblige(st, ctx, same, "site", "site[%s][sort_key_injective]" % key, node,
                    "at call '%s': the sort key is injective on the elements (key(x) == key(y) implies x == y)" % key)

    def m_list_sort(self, base, node, st, ctx):
        """list.sort(key=..., reverse=...): same length and the same members, in place; the order itself is left
        unspecified (nothing proved may depend on it)"""
        if node.args:
            raise Unsupported("list.sort with positional arguments")
        ety = base.ty.args[0]
        self.sort_key_obligation(node, ety, st, ctx)
        n = st.list_len(base.ty, base.t)
        mo = self.list_mem(st, base.ty, base.t)
        el = z3.Const(fresh_name("sorted"), z3.ArraySort(I, ety.sort()))
        st.set_list(base.ty, base.t, n, el)
        mn = self.list_mem(st, base.ty, base.t)
        st.assume(mo == mn)
        if ety.is_ref:
            j = z3.Int(fresh_name("j"))
            st.assume(z3.ForAll([j], z3.Implies(z3.And(0 <= j, j < n), z3.And(0 <= el[j], el[j] < st.alloc)), patterns=[el[j]]))
        return mk_none()

    def m_list_copy(self, base, node, st, ctx):
        r = st.new_ref()
        st.set_list(base.ty, r, st.list_len(base.ty, base.t), st.list_elems(base.ty, base.t))
        return SV(base.ty, r)

    # str
    def m_str_split(self, base, node, st, ctx):
        args = self.args_of(node, st, ctx)
        if len(args) != 1:
            raise Unsupported("split() without separator / with maxsplit")
        sep = self.coerce(args[0], STR, st)
        return SV(Ty("strlist"), py=(base.t, sep.t))

    def split_len(self, s, sep, st):
        f = self.uf("split_len", [S, S], I)
        n = f(s, sep)
        st.assume(n >= 1)
        st.assume(z3.Implies(z3.Not(z3.Contains(s, sep)), n == 1))
        st.assume(z3.Implies(z3.Contains(s, sep), n >= 2))
        return n

    def split_at(self, s, sep, i):
        return self.uf("split_at", [S, S, I], S)(s, sep, i)

    def split_item(self, base, idx, st, ctx, node):
        s, sep = base.py
        i = self.num(idx, st).t
        n = self.split_len(s, sep, st)
        ctx.exc(z3.Or(i >= n, i < -n), "IndexError", node)
        ii = z3.If(i < 0, i + n, i)
        r = self.split_at(s, sep, ii)
        st.assume(z3.Implies(n == 1, self.split_at(s, sep, 0) == s))
        return mk_str(r)

    def materialize_split(self, x, st):
        s, sep = x.py
        r = st.new_ref()
        j = z3.Int(fresh_name("j"))
        st.set_list(List(STR), r, self.split_len(s, sep, st), self.named_array(st, j, self.split_at(s, sep, j), "split"))
        return SV(List(STR), r)

    def m_str_join(self, base, node, st, ctx):
        (x,) = self.args_of(node, st, ctx)
        if x.ty.kind == "strlist":
            x = self.materialize_split(x, st)
        if x.ty != List(STR):
            raise Unsupported("join over %r" % x.ty)
        f = self.uf("str_join", [S, z3.ArraySort(I, S), I], S)
        n = st.list_len(x.ty, x.t)
        e = st.list_elems(x.ty, x.t)
        r = f(base.t, e, n)
        st.assume(z3.Implies(n == 0, r == z3.StringVal("")))
        st.assume(z3.Implies(n == 1, r == e[0]))
        st.assume(z3.Implies(n == 2, r == z3.Concat(e[0], base.t, e[1])))
        return mk_str(r)

    def m_str_format(self, base, node, st, ctx):
        args = self.args_of(node, st, ctx)
        # constant format string with plain {} placeholders only
        if not z3.is_string_value(base.t):
            raise Unsupported("format on non-constant string")
        fmt = base.t.as_string()
        parts = fmt.split("{}")
        if "{" in "".join(parts) or len(parts) != len(args) + 1:
            # other format specs: uninterpreted formatter
            f = self.uf("fmt_%d" % len(args), [S] + [Val] * len(args), S)
            return mk_str(f(base.t, *[box(a) if a.ty.kind != "tuple" else Val.VNone for a in args]))
        out = [z3.StringVal(parts[0])]
        for a, p in zip(args, parts[1:]):
            out.append(self.to_str(a) if a.ty.kind != "val" else self.bi_str_val(a, st))
            out.append(z3.StringVal(p))
        return mk_str(z3.Concat(*out))

    def bi_str_val(self, a, st):
        f = self.uf("str_of_val", [Val], S)
        st.assume(z3.Implies(Val.is_VStr(a.t), f(a.t) == Val.s(a.t)))
        return f(a.t)

    def m_str_replace(self, base, node, st, ctx):
        a, b = [self.coerce(x, STR, st) for x in self.args_of(node, st, ctx)]
        f = self.uf("str_replace_all", [S, S, S], S)
        r = f(base.t, a.t, b.t)
        st.assume(z3.Implies(z3.Not(z3.Contains(base.t, a.t)), r == base.t))
        return mk_str(r)

    def m_str_startswith(self, base, node, st, ctx):
        (a,) = self.args_of(node, st, ctx)
        return mk_bool(z3.PrefixOf(self.coerce(a, STR, st).t, base.t))

    def m_str_endswith(self, base, node, st, ctx):
        (a,) = self.args_of(node, st, ctx)
        return mk_bool(z3.SuffixOf(self.coerce(a, STR, st).t, base.t))

    def m_str_count(self, base, node, st, ctx):
        (a,) = self.args_of(node, st, ctx)
        a = self.coerce(a, STR, st)
        f = self.uf("str_count", [S, S], I)
        r = f(base.t, a.t)
        st.assume(r >= 0)
        st.assume((r == 0) == z3.Not(z3.Contains(base.t, a.t)))
        return mk_int(r)

    def m_str_lower(self, base, node, st, ctx):
        return mk_str(self.uf("str_lower", [S], S)(base.t))

    def m_str_strip(self, base, node, st, ctx):
        return mk_str(self.uf("str_strip", [S], S)(base.t))
