"""Native (CPython) evaluation of the same contract text the prover uses.

A contract's requires/ensures strings are Python expressions; here they are evaluated on concrete values:
quantifiers range over finite universes collected from the values at hand, old(...) is evaluated on a deep
copy of the arguments taken at entry (object identity is mapped through the copy memo), spec functions are
supplied by the caller as independent native implementations.  Used for (a) run-time checking of assumed
contracts on the real functions (bounded stand-in), (b) replaying verifier counterexamples, (c) cross-checking
the prover's encoding against CPython."""
import ast
import copy
import inspect

TYPES = ("INT", "STR", "BOOL", "REAL", "VALUE", "ROW", "COMP", "REF")


class SpecError(Exception):
    pass


class _OldRewriter(ast.NodeTransformer):
    """old(e)  ->  __old__(lambda: e')  where e' reads parameter names from the entry snapshot and maps every other
    object through the snapshot memo"""

    def __init__(self, params):
        self.params = set(params)
        self.depth = 0

    def visit_Call(self, node):
        if isinstance(node.func, ast.Name) and node.func.id == "old" and len(node.args) == 1:
            self.depth += 1
            inner = self.visit(node.args[0])
            self.depth -= 1
            return inner
        node = self.generic_visit(node)
        if isinstance(node.func, ast.Name) and node.func.id == "implies" and len(node.args) == 2:
            # lazy: (not a) or b
            return ast.copy_location(ast.BoolOp(op=ast.Or(), values=[ast.UnaryOp(op=ast.Not(), operand=node.args[0]),
                                                                      node.args[1]]), node)
        if isinstance(node.func, ast.Name) and node.func.id == "ite" and len(node.args) == 3:
            return ast.copy_location(ast.IfExp(test=node.args[0], body=node.args[1], orelse=node.args[2]), node)
        return node

    def visit_Compare(self, node):
        node = self.generic_visit(node)
        if len(node.ops) == 1 and isinstance(node.ops[0], (ast.Is, ast.IsNot)) and \
                not (isinstance(node.comparators[0], ast.Constant) and node.comparators[0].value is None):
            call = ast.Call(func=ast.Name(id="__same__", ctx=ast.Load()), args=[node.left, node.comparators[0]], keywords=[])
            if isinstance(node.ops[0], ast.IsNot):
                call = ast.UnaryOp(op=ast.Not(), operand=call)
            return ast.copy_location(call, node)
        return node

    def visit_Subscript(self, node):
        node = self.generic_visit(node)
        if isinstance(node.ctx, ast.Load) and not isinstance(node.slice, ast.Slice):
            # spec subscripts are total (absent key / index out of range -> default value)
            return ast.copy_location(ast.Call(func=ast.Name(id="__idx__", ctx=ast.Load()),
                                              args=[node.value, node.slice], keywords=[]), node)
        return node

    def visit_Name(self, node):
        if self.depth > 0 and isinstance(node.ctx, ast.Load):
            if node.id in self.params:
                return ast.copy_location(ast.Subscript(value=ast.Name(id="__pre__", ctx=ast.Load()),
                                                       slice=ast.Constant(node.id), ctx=ast.Load()), node)
            if node.id not in ("True", "False", "None") and not node.id.startswith("__"):
                return ast.copy_location(ast.Call(func=ast.Name(id="__tr__", ctx=ast.Load()),
                                                  args=[node], keywords=[]), node)
        return node

    def visit_Lambda(self, node):
        return self.generic_visit(node)


class Universe:
    def __init__(self):
        self.strs = set()
        self.rows = {}
        self.vals = set()

    def scan(self, x, depth=0):
        if depth > 6:
            return
        if isinstance(x, dict):
            self.rows[id(x)] = x
            for k, v in x.items():
                if isinstance(k, str):
                    self.strs.add(k)
                self.scan(v, depth + 1)
        elif isinstance(x, (list, tuple)):
            for v in x:
                self.scan(v, depth + 1)
        elif isinstance(x, str):
            if len(x) < 40:
                self.vals.add(x)
        elif isinstance(x, (int, float, bool)) or x is None:
            self.vals.add(x)
        elif hasattr(x, "__dict__") and depth < 3:
            for v in vars(x).values():
                self.scan(v, depth + 1)


def _mapof(d):
    return d


def make_env(params, pre, memo, specfuns, universe, extra=None):
    def tr(x):
        return memo.get(id(x), x)

    back = {id(v): k for k, v in memo.items()}

    def same(a, b):
        """object identity across the entry snapshot: a copy stands for the object it was copied from"""
        ia = back.get(id(a), id(a))
        ib = back.get(id(b), id(b))
        return ia == ib

    def forall(*args):
        *doms, f = args
        return all(f(*c) for c in _combos(doms, universe, f))

    def exists(*args):
        *doms, f = args
        return any(f(*c) for c in _combos(doms, universe, f))

    def implies(a, b):
        return (not a) or bool(b)

    def get0(d, k):
        return d.get(k, 0) if d is not None else 0

    def same_map(a, b):
        return a == b

    def in_list(x, l):
        return any(y is x or (not isinstance(x, (dict, list)) and y == x) for y in l)

    def index_in(x, l):
        for i, y in enumerate(l):
            if y is x:
                return i
        return -1

    def distinct_rows(l):
        return len({id(x) for x in l}) == len(l)

    def split_at(s, sep, i):
        p = s.split(sep)
        return p[i] if 0 <= i < len(p) else ""

    def idx(d, k):
        if isinstance(d, dict):
            if k in d:
                return d[k]
            return 0 if all(isinstance(v, int) and not isinstance(v, bool) for v in d.values()) else None
        if isinstance(d, (list, tuple, str)):
            try:
                return d[k]
            except (IndexError, TypeError):
                return None
        if d is None:
            return None
        return d[k]

    env = {
        "__idx__": idx,
        "forall": forall, "exists": exists, "implies": implies, "iff": lambda a, b: bool(a) == bool(b),
        "ite": lambda c, a, b: a if c else b, "let": lambda v, f: f(v),
        "get0": get0, "mapof": _mapof, "same_map": same_map, "in_list": in_list, "index_in": index_in,
        "distinct_rows": distinct_rows, "split_at": split_at, "split_len": lambda s, sep: len(s.split(sep)),
        "contains": lambda s, t: t in s, "prefixof": lambda s, t: t.startswith(s), "repeat": lambda s, n: s * n,
        "is_str": lambda v: isinstance(v, str), "is_int": lambda v: isinstance(v, int) and not isinstance(v, bool),
        "is_bool": lambda v: isinstance(v, bool), "is_none": lambda v: v is None,
        "is_real": lambda v: isinstance(v, float), "is_ref": lambda v: isinstance(v, (dict, list)),
        "as_str": lambda v: v, "as_int": lambda v: v, "as_bool": lambda v: v, "as_real": lambda v: v,
        "as_row": lambda v: v, "as_comp": lambda v: v, "as_list": lambda v, t=None: v, "truthy": bool,
        "allocated": lambda x: True, "fresh": lambda x: True, "allocated_before": lambda x: True,
        "__pre__": pre, "__tr__": tr, "__same__": same,
    }
    for t in TYPES:
        env[t] = t
    env.update(specfuns or {})
    env.update(params)
    if extra:
        env.update(extra)
    return env


def _combos(doms, universe, f):
    import itertools
    pools = []
    for d in doms:
        if isinstance(d, str) and d in TYPES:
            if d == "STR":
                pools.append(sorted(universe.strs) + ["__absent__"])
            elif d in ("ROW", "COMP"):
                pools.append(list(universe.rows.values()))
            elif d == "INT" or d == "REF":
                pools.append(list(range(-1, 6)))
            elif d == "VALUE":
                pools.append(list(universe.vals))
            else:
                pools.append([True, False])
        elif isinstance(d, dict):
            pools.append(list(d.keys()))
        else:
            pools.append(list(d))
    if len(pools) == 1:
        n = len(inspect.signature(f).parameters)
        if n > 1:  # binder over tuples (e.g. items())
            return [tuple(x) for x in pools[0]]
        return [(x,) for x in pools[0]]
    return itertools.product(*pools)


class Monitor:
    """evaluates one contract on one concrete call of the real function"""

    def __init__(self, contract, specfuns):
        self.c = contract
        self.specfuns = specfuns
        self.codes = {}

    def compile(self, text):
        code = self.codes.get(text)
        if code is None:
            tree = ast.parse(text.strip(), mode="eval")
            tree = _OldRewriter(self.c.params.keys()).visit(tree)
            ast.fix_missing_locations(tree)
            code = compile(tree, "<spec>", "eval")
            self.codes[text] = code
        return code

    def call(self, func, kwargs):
        """returns (result or exception, list of violated clauses, 'skipped' if the precondition does not hold)"""
        memo = {}
        pre = copy.deepcopy(kwargs, memo)
        uni = Universe()
        for v in kwargs.values():
            uni.scan(v)
        env0 = make_env(dict(kwargs), pre, memo, self.specfuns, uni)
        for r in self.c.requires:
            try:
                if not eval(self.compile(r), env0):
                    return None, [], "skipped"
            except Exception as e:
                return None, [], "skipped"
        bad = []
        try:
            res = func(**kwargs)
            exc = None
        except Exception as e:  # noqa
            res, exc = None, e
        for v in kwargs.values():
            uni.scan(v)
        uni.scan(res)
        if exc is not None:
            cls = type(exc).__name__
            declared = [d for d in self.c.raises if d == cls or d in [b.__name__ for b in type(exc).__mro__]]
            if not declared and not any(a in [b.__name__ for b in type(exc).__mro__] for a in self.c.allow_exc):
                bad.append("raised %s: %s" % (cls, str(exc)[:200]))
            return exc, bad, "raised"
        env = make_env(dict(kwargs), pre, memo, self.specfuns, uni, {"result": res})
        for i, e in enumerate(self.c.ensures):
            try:
                ok = eval(self.compile(e), env)
            except Exception as ex:
                ok = False
                e = e + "   [evaluation error: %r]" % (ex,)
            if not ok:
                bad.append("ensures[%d]: %s" % (i, e[:300]))
        return res, bad, "ok"
