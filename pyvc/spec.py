"""Spec-level builtins, spec functions and modular (contract) calls."""
import ast
import os
import z3
from .vtypes import *  # noqa
from .state import State, Unsupported, StaleContract, fresh_name, default_of
from .exprs import Ctx, SPEC_TYPES


def MapT(k, v):
    return Ty("map", k, v)


class SpecMixin:
    # ------------------------------------------------------------------ parsing
    def parse_spec(self, text):
        try:
            return self._spec_cache[text]
        except KeyError:
            pass
        try:
            n = ast.parse(text.strip(), mode="eval").body
        except SyntaxError as e:
            raise StaleContract("bad spec expression %r: %s" % (text, e))
        self._spec_cache[text] = n
        return n

    def ev_spec(self, text, st, old=None, labels=None):
        """evaluate a spec clause to a z3 Bool in state st"""
        ctx = Ctx(spec=True, old=old)
        if labels:
            ctx.labels = labels
        st2 = st.copy()
        st2.writes = None
        v = self.ev(self.parse_spec(text), st2, ctx)
        # spec evaluation may add definitional facts (cardinality, split axioms); keep them
        for f in st2.pc[len(st.pc):]:
            st.assume(f)
        return self.truthy(v, st2)

    def ev_spec_value(self, text, st, old=None):
        ctx = Ctx(spec=True, old=old)
        st2 = st.copy()
        st2.writes = None
        v = self.ev(self.parse_spec(text), st2, ctx)
        for f in st2.pc[len(st.pc):]:
            st.assume(f)
        return v

    # ------------------------------------------------------------------ quantifiers etc.
    def _quant_spec(self, node, st, ctx, is_all):
        *tys, lam = node.args
        if not isinstance(lam, ast.Lambda):
            raise StaleContract("forall/exists needs a lambda")
        names = [a.arg for a in lam.args.args]
        st2 = st.copy()
        st2.in_binder = True
        vars_ = []
        guards = []
        if len(tys) == 1 and len(names) >= 1 and not (isinstance(tys[0], ast.Name) and tys[0].id in SPEC_TYPES):
            # forall(<container expr>, lambda x: ...)  /  forall(range(a,b), lambda i: ...)
            it = self.ev(tys[0], st, ctx)
            vs, g, bound = self.iter_binder(it, st2, ctx, None)
            vars_ = vs
            guards.append(g)
            b = bound[0]
            if len(names) == 1:
                st2.locals[names[0]] = b
            else:
                if b.ty.kind != "tuple" or len(b.items) != len(names):
                    raise StaleContract("binder arity")
                for n, x in zip(names, b.items):
                    st2.locals[n] = x
        else:
            if len(tys) != len(names):
                raise StaleContract("forall: %d types for %d variables" % (len(tys), len(names)))
            for t, n in zip(tys, names):
                ty = SPEC_TYPES[t.id] if isinstance(t, ast.Name) and t.id in SPEC_TYPES else None
                if ty is None:
                    raise StaleContract("unknown type in quantifier")
                if isinstance(t, ast.Name) and t.id in ("ROW", "COMP"):
                    c = z3.Int(fresh_name(n))
                    sv = SV(ty, c)
                elif t.id == "REF":
                    c = z3.Int(fresh_name(n))
                    sv = SV(INT, c)
                else:
                    c = z3.Const(fresh_name(n), ty.sort())
                    sv = SV(ty, c)
                vars_.append(c)
                st2.locals[n] = sv
        self._bound_stack = getattr(self, "_bound_stack", [])
        self._bound_stack.append(list(vars_))
        from .state import fresh_mark
        mark = fresh_mark()
        try:
            st2.binder_vars = list(st.binder_vars) + list(vars_)
            body = self.truthy(self.ev(lam.body, st2, ctx), st2)
        finally:
            self._bound_stack.pop()
        g = z3.And(*guards) if guards else z3.BoolVal(True)
        for f in st2.pc[len(st.pc):]:
            self.binder_audit(f, vars_, mark, node)
            st.assume(z3.ForAll(vars_, z3.Implies(g, f)))
        if is_all:
            return mk_bool(z3.ForAll(vars_, z3.Implies(g, body)))
        return mk_bool(z3.Exists(vars_, z3.And(g, body)))

    def spec_forall(self, node, st, ctx):
        return self._quant_spec(node, st, ctx, True)

    def spec_exists(self, node, st, ctx):
        return self._quant_spec(node, st, ctx, False)

    def spec_implies(self, node, st, ctx):
        a = self.truthy(self.ev(node.args[0], st, ctx), st)
        b = self.truthy(self.ev(node.args[1], st, ctx), st)
        return mk_bool(z3.Implies(a, b))

    def spec_iff(self, node, st, ctx):
        a = self.truthy(self.ev(node.args[0], st, ctx), st)
        b = self.truthy(self.ev(node.args[1], st, ctx), st)
        return mk_bool(a == b)

    def spec_let(self, node, st, ctx):
        """let(value, lambda x: body)"""
        v = self.ev(node.args[0], st, ctx)
        lam = node.args[1]
        st2 = st.copy()
        st2.locals[lam.args.args[0].arg] = v
        r = self.ev(lam.body, st2, ctx)
        for f in st2.pc[len(st.pc):]:
            st.assume(f)
        return r

    def spec_ite(self, node, st, ctx):
        c = self.truthy(self.ev(node.args[0], st, ctx), st)
        return self.ite(c, self.ev(node.args[1], st, ctx), self.ev(node.args[2], st, ctx), st)

    def spec_old(self, node, st, ctx):
        if ctx.old is None:
            raise StaleContract("old() not available here")
        o = ctx.old
        st2 = o.copy()
        # bound variables of enclosing quantifiers stay visible
        for k, v in st.locals.items():
            if k not in st2.locals:
                st2.locals[k] = v
        st2.ghost = dict(st.ghost)
        return self.ev(node.args[0], st2, ctx)

    def spec_at(self, node, st, ctx):
        """at('label', e): e evaluated in the heap recorded at a loop entry ('loop<k>')"""
        lab = node.args[0].value
        if lab not in ctx.labels:
            raise StaleContract("unknown label %s" % lab)
        st2 = ctx.labels[lab].copy()
        for k, v in st.locals.items():
            if k not in st2.locals:
                st2.locals[k] = v
        st2.ghost = dict(st.ghost)
        return self.ev(node.args[1], st2, ctx)

    def spec_get0(self, node, st, ctx):
        d = self.ev(node.args[0], st, ctx)
        k = self.ev(node.args[1], st, ctx)
        if d.ty.kind == "dict":
            kt = self.coerce(k, d.ty.args[0], st).t
            return self.wrap(st.dict_val(d.ty, d.t)[kt], d.ty.args[1])
        if d.ty.kind == "map":
            return self.wrap(d.t[1][self.coerce(k, d.ty.args[0], st).t], d.ty.args[1])
        raise StaleContract("get0 on %r" % d.ty)

    def spec_mapof(self, node, st, ctx):
        d = self.ev(node.args[0], st, ctx)
        return self.mapof(d, st)

    def mapof(self, d, st):
        if d.ty.kind == "map":
            return d
        if d.ty.kind != "dict":
            raise StaleContract("mapof on %r" % d.ty)
        return SV(MapT(*d.ty.args), (st.dict_dom(d.ty, d.t), st.dict_val(d.ty, d.t)))

    def spec_same_map(self, node, st, ctx):
        a = self.mapof(self.ev(node.args[0], st, ctx), st)
        b = self.mapof(self.ev(node.args[1], st, ctx), st)
        return mk_bool(z3.And(a.t[0] == b.t[0], a.t[1] == b.t[1]))

    def spec_seq_eq(self, node, st, ctx):
        """seq_eq(l1, l2): same length and same elements (references compared by identity)"""
        a = self.ev(node.args[0], st, ctx)
        b = self.ev(node.args[1], st, ctx)
        j = z3.Int(fresh_name("j"))
        la, lb = st.list_len(a.ty, a.t), st.list_len(b.ty, b.t)
        return mk_bool(z3.And(la == lb, z3.ForAll([j], z3.Implies(
            z3.And(0 <= j, j < la), st.list_elems(a.ty, a.t)[j] == st.list_elems(b.ty, b.t)[j]))))

    def spec_is_str(self, node, st, ctx):
        return mk_bool(Val.is_VStr(box(self.ev(node.args[0], st, ctx))))

    def spec_is_int(self, node, st, ctx):
        return mk_bool(Val.is_VInt(box(self.ev(node.args[0], st, ctx))))

    def spec_is_bool(self, node, st, ctx):
        return mk_bool(Val.is_VBool(box(self.ev(node.args[0], st, ctx))))

    def spec_is_real(self, node, st, ctx):
        return mk_bool(Val.is_VReal(box(self.ev(node.args[0], st, ctx))))

    def spec_as_real(self, node, st, ctx):
        return mk_real(Val.r(box(self.ev(node.args[0], st, ctx))))

    def spec_is_none(self, node, st, ctx):
        return mk_bool(self.is_none(self.ev(node.args[0], st, ctx)))

    def spec_is_ref(self, node, st, ctx):
        return mk_bool(Val.is_VRef(box(self.ev(node.args[0], st, ctx))))

    def spec_as_str(self, node, st, ctx):
        return mk_str(Val.s(box(self.ev(node.args[0], st, ctx))))

    def spec_as_int(self, node, st, ctx):
        return mk_int(Val.i(box(self.ev(node.args[0], st, ctx))))

    def spec_as_bool(self, node, st, ctx):
        return mk_bool(Val.b(box(self.ev(node.args[0], st, ctx))))

    def spec_as_row(self, node, st, ctx):
        return SV(ROW, Val.ref(box(self.ev(node.args[0], st, ctx))))

    def spec_is_dictref(self, node, st, ctx):
        """a row value that is a reference to a dictionary (isinstance(v, dict))"""
        v = box(self.ev(node.args[0], st, ctx))
        return mk_bool(z3.And(Val.is_VRef(v), self.uf("ref_is_dict", [I], B)(Val.ref(v))))

    def spec_as_obj_RdMol(self, node, st, ctx):
        return SV(Obj("RdMol"), Val.ref(box(self.ev(node.args[0], st, ctx))))

    def spec_as_comp(self, node, st, ctx):
        """a row value read as a reference to a composition dictionary (str -> int)"""
        return SV(COMP, Val.ref(box(self.ev(node.args[0], st, ctx))))

    def spec_as_list(self, node, st, ctx):
        ty = SPEC_TYPES[node.args[1].id]
        return SV(List(ty), Val.ref(box(self.ev(node.args[0], st, ctx))))

    def spec_truthy(self, node, st, ctx):
        return mk_bool(self.truthy(self.ev(node.args[0], st, ctx), st))

    def spec_allocated(self, node, st, ctx):
        x = self.ev(node.args[0], st, ctx)
        return mk_bool(z3.And(0 <= x.t, x.t < st.alloc))

    def spec_old_objects_unchanged(self, node, st, ctx):
        """old_objects_unchanged('L.<tag>'): no list (length or elements) of that element tag that existed at function entry
        has been written - a frame invariant for loops that create and fill their own temporary lists"""
        base = node.args[0].value
        if ctx.old is None:
            raise StaleContract("old_objects_unchanged() needs an old state")
        r = z3.Int(fresh_name("r"))
        out = []
        for suffix in (".len", ".elem"):
            name = base + suffix
            cur = st.heap.get(name)
            if cur is None:
                continue  # never written on this path
            old = ctx.old.heap.get(name)
            if old is None:
                old = self.heap0(name, cur.sort())
            body = z3.Implies(z3.And(0 <= r, r < ctx.old.alloc), cur[r] == old[r])
            try:
                out.append(z3.ForAll([r], body, patterns=[cur[r]] if z3.is_const(cur) else [old[r]]))
            except z3.Z3Exception:
                out.append(z3.ForAll([r], body))
        return mk_bool(z3.And(*out) if out else z3.BoolVal(True))

    def spec_fresh(self, node, st, ctx):
        x = self.ev(node.args[0], st, ctx)
        if ctx.old is None:
            raise StaleContract("fresh() needs an old state")
        return mk_bool(z3.And(ctx.old.alloc <= x.t, x.t < st.alloc))

    def list_mem(self, st, lty, ref):
        """MEM(n, e): the set of values stored in a list, as an array to Bool; definitional facts are added once
        per distinct (length, element array) pair: (A) every element is a member, (B) every member has an index"""
        n = st.list_len(lty, ref)
        e = st.list_elems(lty, ref)
        es = lty.args[0].sort()
        if not z3.is_const(e):
            e2 = z3.simplify(e)
            if z3.is_quantifier(e2):
                e = e2
        if z3.is_quantifier(e):
            # element array given by a lambda term (comprehension): name it, lambdas cannot occur in patterns
            if not hasattr(self, "_lamnames"):
                self._lamnames = {}
            a = self._lamnames.get(e.get_id())
            if a is None:
                a = z3.Const(fresh_name("lam"), e.sort())
                self._lamnames[e.get_id()] = a
                j = z3.Int(fresh_name("j"))
                self.facts.append(z3.ForAll([j], a[j] == e[j], patterns=[a[j]]))
            e = a
        MEM = self.uf("MEM_" + str(es), [I, z3.ArraySort(I, es)], z3.ArraySort(es, B))
        WIT = self.uf("WIT_" + str(es), [I, z3.ArraySort(I, es), es], I)
        self.mem_facts(n, e, es)
        return MEM(n, e)

    def mem_facts(self, n, e, es):
        MEM = self.uf("MEM_" + str(es), [I, z3.ArraySort(I, es)], z3.ArraySort(es, B))
        WIT = self.uf("WIT_" + str(es), [I, z3.ArraySort(I, es), es], I)
        m = MEM(n, e)
        key = ("mem", n.get_id(), e.get_id())
        if key not in self._memfacts:
            self._memfacts.add(key)
            j = z3.Int(fresh_name("j"))
            x = z3.Const(fresh_name("x"), es)
            try:
                self.facts.append(z3.ForAll([j], z3.Implies(z3.And(0 <= j, j < n), m[e[j]]), patterns=[e[j]]))
            except z3.Z3Exception:  # element array given by a lambda term: no usable pattern
                self.facts.append(z3.ForAll([j], z3.Implies(z3.And(0 <= j, j < n), m[e[j]])))
            self.facts.append(z3.ForAll([x], z3.Implies(m[x], z3.And(0 <= WIT(n, e, x), WIT(n, e, x) < n,
                                                                     e[WIT(n, e, x)] == x)), patterns=[m[x]]))

    def spec_in_list(self, node, st, ctx):
        x = self.ev(node.args[0], st, ctx)
        l = self.ev(node.args[1], st, ctx)
        xv = self.coerce(x, l.ty.args[0], st)
        return mk_bool(self.list_mem(st, l.ty, l.t)[xv.t])

    def spec_index_in(self, node, st, ctx):
        """index_in(x, L): an index at which x occurs in L (meaningful when in_list(x, L))"""
        x = self.ev(node.args[0], st, ctx)
        l = self.ev(node.args[1], st, ctx)
        xv = self.coerce(x, l.ty.args[0], st)
        self.list_mem(st, l.ty, l.t)
        es = l.ty.args[0].sort()
        WIT = self.uf("WIT_" + str(es), [I, z3.ArraySort(I, es), es], I)
        return mk_int(WIT(st.list_len(l.ty, l.t), st.list_elems(l.ty, l.t), xv.t))

    def spec_distinct_rows(self, node, st, ctx):
        l = self.ev(node.args[0], st, ctx)
        a, b = z3.Int(fresh_name("a")), z3.Int(fresh_name("b"))
        e = st.list_elems(l.ty, l.t)
        n = st.list_len(l.ty, l.t)
        return mk_bool(z3.ForAll([a, b], z3.Implies(z3.And(0 <= a, a < b, b < n), e[a] != e[b])))

    def spec_split_at(self, node, st, ctx):
        s, sep, i = [self.ev(a, st, ctx) for a in node.args]
        return mk_str(self.split_at(self.coerce(s, STR, st).t, self.coerce(sep, STR, st).t, self.num(i, st).t))

    def spec_split_len(self, node, st, ctx):
        s, sep = [self.ev(a, st, ctx) for a in node.args]
        return mk_int(self.split_len(self.coerce(s, STR, st).t, self.coerce(sep, STR, st).t, st))

    def spec_contains(self, node, st, ctx):
        s, t = [self.coerce(self.ev(a, st, ctx), STR, st) for a in node.args]
        return mk_bool(z3.Contains(s.t, t.t))

    def spec_prefixof(self, node, st, ctx):
        s, t = [self.coerce(self.ev(a, st, ctx), STR, st) for a in node.args]
        return mk_bool(z3.PrefixOf(s.t, t.t))

    def spec_repeat(self, node, st, ctx):
        s, n = [self.ev(a, st, ctx) for a in node.args]
        return mk_str(self.str_repeat(self.coerce(s, STR, st).t, self.num(n, st).t, st))

    def spec_done(self, node, st, ctx):
        """done(k): key k already visited by the innermost dict loop"""
        g = st.ghost.get("_done")
        if g is None:
            raise StaleContract("done() outside a dict loop")
        k = self.ev(node.args[0], st, ctx)
        return mk_bool(g.t[k.t])

    # ------------------------------------------------------------------ spec functions
    def expand_arg(self, sv, ty, st):
        """deep value of an argument for an uninterpreted function"""
        if ty.kind == "dict":
            m = self.mapof(sv, st)
            return [m.t[0], m.t[1]]
        if ty.kind == "list":
            if ty.args[0].is_ref:
                raise Unsupported("deep value of list of references")
            return [st.list_len(sv.ty, sv.t), st.list_elems(sv.ty, sv.t)]
        v = self.coerce(sv, ty, st)
        return [v.t]  # a None argument of a scalar parameter is the callee's TypeError, not a value

    def arg_sorts(self, ty, opt=False):
        if ty.kind == "opt":
            return [Val]
        if ty.kind == "dict":
            ks, vs = ty.args[0].sort(), ty.args[1].sort()
            return [z3.ArraySort(ks, B), z3.ArraySort(ks, vs)]
        if ty.kind == "list":
            return [I, z3.ArraySort(I, ty.args[0].sort())]
        return [ty.sort()]

    def apply_specfun(self, name, args, st):
        argtys, retty = self.reg.specfuns[name]
        if len(args) != len(argtys):
            raise StaleContract("spec function %s arity" % name)
        zargs, zsorts = [], []
        for a, t in zip(args, argtys):
            if t.kind == "opt":
                zargs.append(box(a))
                zsorts.append(Val)
            else:
                zargs += self.expand_arg(a, t, st)
                zsorts += self.arg_sorts(t)
        return self.apply_uf(self.reg.specfun_alias.get(name, name), zargs, zsorts, retty)

    def apply_uf(self, name, zargs, zsorts, retty):
        if retty.kind in ("map", "dict"):
            ks, vs = retty.args[0].sort(), retty.args[1].sort()
            fd = self.uf(name + "_dom", zsorts, z3.ArraySort(ks, B))
            fv = self.uf(name + "_val", zsorts, z3.ArraySort(ks, vs))
            return SV(MapT(*retty.args), (fd(*zargs), fv(*zargs)))
        if retty.kind == "tuple":
            return mk_tuple([self.apply_uf("%s_%d" % (name, i), zargs, zsorts, t) for i, t in enumerate(retty.args)])
        if retty.kind == "opt":
            f = self.uf(name, zsorts, Val)
            return unbox(f(*zargs), retty.args[0])
        f = self.uf(name, zsorts, retty.sort())
        return SV(retty, f(*zargs))

    # ------------------------------------------------------------------ modular calls
    def bind_args(self, c, selfsv, node, st, ctx):
        """positional/keyword binding against the callee's real signature (or the contract's parameter order)"""
        fn = self.find_function_opt(c.file, c.qualname)
        if fn is not None:
            a = fn.args
            names = [x.arg for x in a.posonlyargs + a.args]
            defaults = dict(zip(names[len(names) - len(a.defaults):], a.defaults))
            for x, dflt in zip(a.kwonlyargs, a.kw_defaults):
                names.append(x.arg)
                if dflt is not None:
                    defaults[x.arg] = dflt
            is_static = any(isinstance(d, ast.Name) and d.id == "staticmethod" for d in fn.decorator_list)
        else:
            names = list(c.params.keys())
            defaults = {}
            is_static = "self" not in names
        bound = {}
        pos = list(names)
        if pos and pos[0] == "self" and not is_static:
            pos = pos[1:]
            if selfsv is not None:
                bound["self"] = selfsv
        elif selfsv is not None and not is_static and "self" in names:
            bound["self"] = selfsv
        argv = []
        if fn is not None and fn.args.vararg is not None:
            pos = [n for n in c.params if n != "self"]  # variadic callee: the contract fixes the arity
            names = list(pos) + [n for n in names if n not in pos]
        for i, x in enumerate(node.args):
            if isinstance(x, ast.Starred):
                tv = self.ev(x.value, st, ctx)
                if tv.ty.kind != "tuple":
                    raise Unsupported("star-args with a non-tuple value")
                argv.extend(tv.items)
                continue
            pty = c.params.get(pos[len(argv)]) if len(argv) < len(pos) else None
            argv.append(self.ev_hinted(x, pty, st, ctx))
        if len(argv) > len(pos):
            raise Unsupported("too many positional arguments for %s" % c.qualname)
        for n, v in zip(pos, argv):
            bound[n] = v
        star_kw = False
        for k in node.keywords:
            if k.arg is None:
                # f(..., **d): d may only feed parameters the contract does not talk about (checked below): every contract
                # parameter must be bound explicitly at this call (a key of d naming one of those is Python's TypeError)
                star_kw = True
                self.ev(k.value, st, ctx)
                continue
            bound[k.arg] = self.ev_hinted(k.value, c.params.get(k.arg), st, ctx)
        if star_kw:
            unbound = [n for n in c.params if n != "self" and n not in bound]
            if unbound:
                raise Unsupported("**kwargs at a call of %s could supply the contract parameter(s) %r" % (c.qualname, unbound))
            self.notes.add("call of %s with **kwargs: every parameter its contract mentions is passed explicitly" % c.qualname)
        for n in names:
            if n not in bound:
                if n in defaults:
                    dn = defaults[n]
                    if isinstance(dn, ast.Constant):
                        bound[n] = self.ev_Constant(dn, st, ctx)
                    elif isinstance(dn, (ast.List, ast.Dict)) and not getattr(dn, "elts", getattr(dn, "keys", [])):
                        bound[n] = SV(FUN, py=("default", dn))
                    else:
                        raise Unsupported("non-constant default for %s.%s" % (c.qualname, n))
                elif n == "self":
                    continue
                elif star_kw and n not in c.params:
                    continue
                else:
                    raise Unsupported("missing argument %s for %s" % (n, c.qualname))
        out = {}
        for n, ty in c.params.items():
            if n not in bound:
                raise StaleContract("contract parameter %s of %s not in signature" % (n, c.qualname))
            v = bound[n]
            if v.ty.kind == "fun" and v.py and v.py[0] == "default":
                v = self.new_list(st, ty.args[0], []) if ty.kind == "list" else self.new_dict(st, ty, [], [])
            out[n] = self.coerce(v, ty, st)
        return out

    def ev_hinted(self, node, ty, st, ctx):
        """evaluate an expression; empty list / dict displays take the expected type"""
        if ty is not None and ty.kind == "opt":
            ty = ty.args[0]
        saved = (self.hint_elem, self.hint_dict)
        try:
            if ty is not None and ty.kind == "list":
                self.hint_elem = ty.args[0]
            if ty is not None and ty.kind == "dict":
                self.hint_dict = ty
            return self.ev(node, st, ctx)
        finally:
            self.hint_elem, self.hint_dict = saved

    def callee_state(self, st, params, extra=None):
        cs = st.copy()
        cs.locals = dict(params)
        if extra:
            cs.locals.update(extra)
        cs.ghost = {}
        cs.writes = None
        return cs

    def havoc_modifies(self, c, params, st, pre):
        """havoc what the callee may modify; returns nothing (st.heap updated)"""
        for m in c.modifies:
            self.havoc_item(m, params, st, pre)

    def havoc_item(self, m, params, st, pre):
        if m.startswith("*"):
            name = m[1:]
            old = pre.heap.get(name)
            if old is None:
                old = self.heap0_existing(name)
            st.set_arr(name, z3.Const(fresh_name(name), old.sort()))
            return
        if m.startswith("each(") and m.endswith(")"):
            cs0 = self.callee_state(pre, params)
            lsv = self.ev_spec_value(m[5:-1], cs0, old=cs0)
            ety = lsv.ty.args[0]
            n = pre.list_len(lsv.ty, lsv.t)
            e = pre.list_elems(lsv.ty, lsv.t)
            r, j = z3.Int(fresh_name("r")), z3.Int(fresh_name("j"))
            mem = self.list_mem(pre, lsv.ty, lsv.t)
            for name, sort in self.arrays_of(ety, pre):
                old = pre.arr(name, sort)
                new = z3.Const(fresh_name(name), sort)
                st.set_arr(name, new)
                st.assume(z3.ForAll([r], z3.Implies(z3.Not(mem[r]), new[r] == old[r]), patterns=[new[r]]))
                self.canon_assume(name, new, st)
            return
        cs0 = self.callee_state(pre, params)
        sv = self.ev_spec_value(m, cs0, old=cs0)  # a modifies item is read in the callee's entry state: old(e) is e there
        if not sv.ty.is_ref:
            raise StaleContract("modifies item %s is not a reference" % m)
        for name, sort in self.arrays_of(sv.ty, pre):
            old = st.arr(name, sort)
            fresh = z3.Const(fresh_name(name + "_at"), sort.range())
            upd = z3.Store(old, sv.t, fresh)
            if sv.none is not None:
                upd = z3.If(sv.none, old, upd)  # an absent (None) argument names no object
            st.set_arr(name, upd, sv.t)
            self.canon_assume(name, st.arr(name, sort), st, ref=sv.t)

    def canon_assume(self, name, arr, st, ref=None):
        """encoding invariants of havocked arrays: list lengths are non-negative; dict values outside the
        domain are the default"""
        if name.startswith("L.") and name.endswith(".len"):
            if ref is not None:
                st.assume(arr[ref] >= 0)
            else:
                r = z3.Int(fresh_name("r"))
                st.assume(z3.ForAll([r], arr[r] >= 0, patterns=[arr[r]]))
            return
        if not (name.startswith("D.") and name.endswith(".val")):
            return
        dn = name[:-4] + ".dom"
        vs = arr.sort().range().range()
        ks = arr.sort().range().domain()
        dom = st.arr(dn, z3.ArraySort(I, z3.ArraySort(ks, B)))
        k = z3.Const(fresh_name("k"), ks)
        dflt = default_of(vs) if not name.split(".")[2] == "ref" else z3.IntVal(-1)
        if ref is not None:
            try:
                st.assume(z3.ForAll([k], z3.Implies(z3.Not(dom[ref][k]), arr[ref][k] == dflt), patterns=[arr[ref][k]]))
            except z3.Z3Exception:
                st.assume(z3.ForAll([k], z3.Implies(z3.Not(dom[ref][k]), arr[ref][k] == dflt)))
        else:
            r = z3.Int(fresh_name("r"))
            st.assume(z3.ForAll([r, k], z3.Implies(z3.Not(dom[r][k]), arr[r][k] == dflt), patterns=[arr[r][k]]))

    def arrays_of(self, ty, st):
        if ty.kind == "dict":
            dn, vn = st.dict_names(ty)
            ks, vs = ty.args[0].sort(), ty.args[1].sort()
            return [(dn, z3.ArraySort(I, z3.ArraySort(ks, B))), (vn, z3.ArraySort(I, z3.ArraySort(ks, vs)))]
        if ty.kind == "list":
            ln, en = st.list_names(ty)
            return [(ln, z3.ArraySort(I, I)), (en, z3.ArraySort(I, z3.ArraySort(I, ty.args[0].sort())))]
        if ty.kind == "obj":
            from .state import _field_sort
            decl = self.reg.classes[ty.args[0]]
            return [("O.%s.%s" % (ty.args[0], f), z3.ArraySort(I, _field_sort(t))) for f, t in decl["fields"].items()]
        raise Unsupported("arrays of %r" % ty)

    def call_contract(self, c, selfsv, node, st, ctx):
        if ctx.spec:
            raise StaleContract("program function %s called in a spec" % c.qualname)
        if ctx.binders:
            # inside a comprehension: the callee may allocate its result (one fresh object per binding) but must not modify anything
            if not c.pure and (c.modifies or (c.returns is not None and c.returns.is_ref and not c.fresh_result)):
                raise Unsupported("call to impure function %s inside a comprehension" % c.qualname)
        params = self.bind_args(c, selfsv, node, st, ctx)
        self.called.add(c.qualname)
        # 1. preconditions
        cs = self.callee_state(st, params)
        for i, r in enumerate(c.requires):
            goal = self.ev_spec(r, cs, old=cs)
            for f in cs.pc[len(st.pc):]:
                st.assume(f)
            self.oblige(st, ctx, goal, "call-requires", "%s.requires[%d]" % (c.qualname, i), node,
                        "precondition of %s: %s" % (c.qualname, r))
        pre = st.copy()
        pre.writes = None
        # 2. frame / havoc
        self.havoc_modifies(c, params, st, pre)
        na = z3.Int(fresh_name("alloc"))
        st.assume(na >= st.alloc)
        st.alloc = na
        # 3. result
        res = None
        if c.returns is not None:
            if ctx.binders and c.returns.is_ref:
                # inside a comprehension: one fresh object per binding of the bound variables (an injective function of them)
                vars_ = [v for vs, _ in ctx.binders for v in vs]
                fn = z3.Function(fresh_name("res_" + c.qualname.split(".")[-1]), *([v.sort() for v in vars_] + [I]))
                res = SV(c.returns, fn(*vars_))
                v2 = [z3.Const(fresh_name("b"), v.sort()) for v in vars_]
                self.facts.append(z3.ForAll(vars_ + v2, z3.Implies(fn(*vars_) == fn(*v2), z3.And(*[a == b for a, b in zip(vars_, v2)])),
                                            patterns=[z3.MultiPattern(fn(*vars_), fn(*v2))]))
                if not c.fresh_result:
                    raise Unsupported("call inside a comprehension returns an object that is not fresh (%s)" % c.qualname)
            else:
                res = self.fresh_sv("res_" + c.qualname.split(".")[-1], c.returns, st)
            self.result_facts(res, c, pre, st)
        if c.pure:
            res = self.pure_result(c, params, res, pre, st)
        # 4. exceptional exits
        pre_cs = self.callee_state(pre, params)
        for cls, cond in c.raises.items():
            # no condition given: the callee may or may not raise (nondeterministic outcome)
            cz = self.ev_spec(cond, pre_cs, old=pre_cs) if cond else z3.Bool(fresh_name("raises_" + cls))
            es = self.callee_state(st, params)
            for e in c.ensures_exc.get(cls, []):
                cz = z3.And(cz, self.ev_spec(e, es, old=pre_cs))
            ctx.exc(cz, cls, node)
            if cond and cond.startswith("#iff "):
                pass
        # 5. postconditions
        es = self.callee_state(st, params, {"result": res} if res is not None else None)
        for e in c.ensures:
            f = self.ev_spec(e, es, old=pre_cs)
            for x in es.pc[len(st.pc):]:
                st.assume(x)
            es.pc = list(st.pc)
            # inside a comprehension (pure callee only) the fact is added to the body state; comp_parts quantifies what
            # the body state gained over the bound variable and its guard
            st.assume(z3.Implies(ctx.guard, f) if not z3.is_true(ctx.guard) else f)
        return res if res is not None else mk_none()

    def result_facts(self, res, c, pre, st):
        def walk(sv):
            if sv.items is not None:
                for i in sv.items:
                    walk(i)
            elif sv.ty.is_ref:
                if c.fresh_result:
                    f = z3.And(pre.alloc <= sv.t, sv.t < st.alloc)
                else:
                    f = z3.And(0 <= sv.t, sv.t < st.alloc)
                st.assume(z3.Implies(z3.Not(sv.none), f) if sv.none is not None else f)
        walk(res)

    def pure_arg(self, sv, ty, st):
        """argument of the value function of a pure program function: the deep value for dictionaries and lists; for an object
        (also `self`) the reference *and* the current values of its declared fields - a pure method may read them, and they may
        have been assigned between two calls (nested objects are represented by their reference only)"""
        if ty.kind == "opt":
            return [box(sv)], [Val]
        if ty.kind == "obj":
            from .state import _field_sort
            v = self.coerce(sv, ty, st)
            decl = self.reg.classes.get(ty.args[0])
            zs, ss = [v.t], [I]
            for f, fty in sorted((decl or {"fields": {}})["fields"].items()):
                zs.append(st.field(ty.args[0], f, fty, v.t))
                ss.append(_field_sort(fty))
            return zs, ss
        return self.expand_arg(sv, ty, st), self.arg_sorts(ty)

    def pure_result(self, c, params, res, pre, st):
        zargs, zsorts = [], []
        for n, ty in c.params.items():
            if n not in params:
                if n == "self":
                    continue  # static call of a function whose contract names no receiver
                raise StaleContract("pure call of %s without argument %s" % (c.qualname, n))
            za, zs = self.pure_arg(params[n], ty, pre)
            zargs += za
            zsorts += zs
        name = "F_" + c.qualname.replace(".", "_")
        rt = c.returns
        if rt.kind == "dict":
            # fresh dict whose content is the function value
            m = self.apply_uf(name, zargs, zsorts, MapT(*rt.args))
            st.assume(st.dict_dom(rt, res.t) == m.t[0])
            st.assume(st.dict_val(rt, res.t) == m.t[1])
            return res
        v = self.apply_uf(name, zargs, zsorts, rt)
        if v.items is not None:
            return v
        if res is not None and res.none is not None:
            st.assume(box(res) == box(v))
            return res
        return v

    def spec_F(self, node, st, ctx):
        """F('qualname', args...): the value function of a pure program function, usable in specs"""
        q = node.args[0].value
        c = self.reg.contracts.get(q)
        if c is None or not c.pure:
            raise StaleContract("F(%s): not a pure contract" % q)
        args = [self.ev(a, st, ctx) for a in node.args[1:]]
        ptys = list(c.params.items())   # a method's value function takes the receiver first
        if len(args) != len(ptys):
            raise StaleContract("F(%s) arity" % q)
        zargs, zsorts = [], []
        for a, (n, ty) in zip(args, ptys):
            za, zs = self.pure_arg(a, ty, st)
            zargs += za
            zsorts += zs
        rt = c.returns
        if rt.kind == "dict":
            rt = MapT(*rt.args)
        return self.apply_uf("F_" + q.replace(".", "_"), zargs, zsorts, rt)

    def construct(self, cls, node, st, ctx):
        """ClassName(...) : allocate an object and apply the contract of __init__"""
        q = cls + ".__init__"
        c = self.reg.contracts.get(q)
        if c is None:
            raise Unsupported("no contract for constructor %s" % cls)
        r = st.new_ref()
        obj = SV(Obj(cls), r)
        self.call_contract(c, obj, node, st, ctx)
        return obj
