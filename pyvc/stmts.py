"""Statement execution: forking symbolic execution with loop cutting by invariants."""
import ast
import z3
from .vtypes import *  # noqa
from .state import State, Unsupported, StaleContract, fresh_name, default_of, _ctr
from .exprs import Ctx

EXC_PARENTS = {
    "KeyError": "LookupError", "IndexError": "LookupError", "LookupError": "Exception",
    "ZeroDivisionError": "ArithmeticError", "ArithmeticError": "Exception",
    "ValueError": "Exception", "TypeError": "Exception", "AttributeError": "Exception",
    "AssertionError": "Exception", "RuntimeError": "Exception", "StopIteration": "Exception",
    "TimeoutError": "OSError", "OSError": "Exception", "FileNotFoundError": "OSError",
    "JSONDecodeError": "ValueError", "NotImplementedError": "RuntimeError",
    "Exception": "BaseException",
}


_hq_cache = {}


def has_quant(f):
    k = f.get_id()
    r = _hq_cache.get(k)
    if r is None:
        r = False
        todo = [f]
        seen = set()
        while todo:
            x = todo.pop()
            if z3.is_quantifier(x):
                r = True
                break
            i = x.get_id()
            if i in seen:
                continue
            seen.add(i)
            todo.extend(x.children())
        _hq_cache[k] = r
    return r


class StmtMixin:
    def exc_matches(self, cls, handler):
        seen = 0
        while cls is not None and seen < 10:
            if cls == handler:
                return True
            cls = self.exc_parents.get(cls, EXC_PARENTS.get(cls, "Exception" if cls != "BaseException" and cls != "Exception" else ("BaseException" if cls == "Exception" else None)))
            seen += 1
        return False

    # ------------------------------------------------------------------ blocks
    def exec_block(self, stmts, st):
        states = [st]
        for s in stmts:
            nxt = []
            for x in states:
                if x.flow is not None:
                    nxt.append(x)
                else:
                    nxt.extend(self.exec_stmt(s, x))
            states = nxt
            if len(states) > self.max_paths:
                raise Unsupported("path explosion (> %d paths)" % self.max_paths)
        return states

    def exec_stmt(self, node, st):
        m = getattr(self, "exec_" + type(node).__name__, None)
        if m is None:
            raise Unsupported("statement %s at line %s" % (type(node).__name__, node.lineno))
        return m(node, st)

    def new_ctx(self, st):
        c = Ctx()
        c.cur_state = st
        c.labels = self.labels
        return c

    def split(self, st, ctx, node):
        """fork exceptional paths recorded while evaluating the expressions of a statement"""
        out = []
        earlier = []
        for cond, cls, lineno, snap in ctx.excs:
            e = (snap or st).copy()
            for c0 in earlier:  # evaluation order: an exception raised earlier in the statement pre-empts this one
                e.assume(z3.Not(c0))
            earlier.append(cond)
            e.assume(cond)
            if self.quick_infeasible(e):
                continue
            e.flow = "raise"
            e.exc = cls
            e.exc_msg = None
            e.trace.append("raise %s @%s" % (cls, lineno))
            out.append(e)
        for cond, cls, lineno, snap in ctx.excs:
            st.assume(z3.Not(cond))
        ctx.excs = []
        return out

    def quick_infeasible(self, st):
        if any(z3.is_false(f) for f in st.pc):
            return True
        return False

    def feasible(self, st):
        """cheap path pruning: only the quantifier-free part of the path condition is used (sound: fewer
        hypotheses can only make fewer paths infeasible)"""
        s = z3.Solver()
        s.set("timeout", 300)
        s.add(*[f for f in st.pc if not has_quant(f)])
        return s.check() != z3.unsat

    # ------------------------------------------------------------------ simple statements
    def exec_Pass(self, node, st):
        return [st]

    def exec_Expr(self, node, st):
        if isinstance(node.value, ast.Constant):
            return [st]  # docstring
        ctx = self.new_ctx(st)
        self.ev(node.value, st, ctx)
        return self.split(st, ctx, node) + [st]

    def exec_Assign(self, node, st):
        ctx = self.new_ctx(st)
        t0 = node.targets[0]
        if (len(node.targets) == 1 and isinstance(t0, (ast.Tuple, ast.List)) and isinstance(node.value, (ast.Tuple, ast.List))
                and len(t0.elts) == len(node.value.elts) and not any(isinstance(e, ast.Starred) for e in t0.elts + node.value.elts)):
            # a, b = x, y: the right-hand sides are evaluated first (left to right, each typed by its own target), then assigned
            vals = []
            for t, e in zip(t0.elts, node.value.elts):
                self.set_hints(t, st)
                vals.append(self.ev(e, st, ctx))
                self.clear_hints()
            for t, v in zip(t0.elts, vals):
                self.assign(t, v, st, ctx, node)
            return self.split(st, ctx, node) + [st]
        self.set_hints(t0, st)
        v = self.ev(node.value, st, ctx)
        self.clear_hints()
        for t in node.targets:
            self.assign(t, v, st, ctx, node)
        return self.split(st, ctx, node) + [st]

    def exec_AnnAssign(self, node, st):
        if node.value is None:
            return [st]
        ctx = self.new_ctx(st)
        self.set_hints(node.target, st)
        v = self.ev(node.value, st, ctx)
        self.clear_hints()
        self.assign(node.target, v, st, ctx, node)
        return self.split(st, ctx, node) + [st]

    def set_hints(self, target, st):
        self.hint_elem = None
        self.hint_dict = None
        self.hint_set = None
        t = None
        if isinstance(target, ast.Name):
            t = self.cur_contract.locals_types.get(target.id)
        elif isinstance(target, ast.Attribute) and isinstance(target.value, ast.Name) and target.value.id in st.locals:
            b = st.locals[target.value.id]
            if b.ty.kind == "obj":
                decl = self.reg.classes.get(b.ty.args[0])
                if decl is not None:
                    t = decl["fields"].get(self.mangle(target.attr))
        if t is not None:
            if t.kind == "opt":
                t = t.args[0]
            if t.kind == "list":
                self.hint_elem = t.args[0]
            if t.kind == "dict":
                self.hint_dict = t
            if t.kind == "set":
                self.hint_set = t.args[0]

    def clear_hints(self):
        self.hint_elem = None
        self.hint_dict = None
        self.hint_set = None

    def assign(self, target, v, st, ctx, node):
        if isinstance(target, ast.Name):
            t = self.cur_contract.locals_types.get(target.id)
            if t is not None and v.ty.kind not in ("fun",):
                v = self.coerce(v, t, st)
            if v.ty.kind == "strlist":
                v = self.materialize_split(v, st)
            st.locals[target.id] = v
            return
        if isinstance(target, (ast.Tuple, ast.List)):
            if v.ty.kind == "tuple":
                if len(v.items) != len(target.elts):
                    ctx.exc(z3.BoolVal(True), "ValueError", node)
                    return
                for t, x in zip(target.elts, v.items):
                    self.assign(t, x, st, ctx, node)
                return
            if v.ty.kind == "strlist":
                s, sep = v.py
                n = self.split_len(s, sep, st)
                ctx.exc(n != len(target.elts), "ValueError", node)
                for j, t in enumerate(target.elts):
                    self.assign(t, mk_str(self.split_at(s, sep, z3.IntVal(j))), st, ctx, node)
                return
            if v.ty.kind == "list":
                n = st.list_len(v.ty, v.t)
                ctx.exc(n != len(target.elts), "ValueError", node)
                for j, t in enumerate(target.elts):
                    self.assign(t, self.wrap(st.list_elems(v.ty, v.t)[j], v.ty.args[0]), st, ctx, node)
                return
            raise Unsupported("unpacking %r (line %s)" % (v.ty, node.lineno))
        if isinstance(target, ast.Subscript):
            base = self.ev(target.value, st, ctx)
            if isinstance(target.slice, ast.Slice):
                raise Unsupported("slice assignment")
            idx = self.ev(target.slice, st, ctx)
            self.setitem(base, idx, v, st, ctx, node)
            return
        if isinstance(target, ast.Attribute):
            base = self.ev(target.value, st, ctx)
            if base.ty.kind != "obj":
                raise Unsupported("attribute assignment on %r" % base.ty)
            cls = base.ty.args[0]
            a = self.mangle(target.attr)
            decl = self.reg.classes.get(cls)
            if decl is None or a not in decl["fields"]:
                raise Unsupported("field %s.%s is not declared" % (cls, a))
            fty = decl["fields"][a]
            if fty.kind == "opt":
                term = box(self.coerce(v, fty, st)) if v.ty.kind != "none" else Val.VNone
            else:
                term = self.coerce(v, fty, st).t
            st.set_field(cls, a, fty, base.t, term)
            return
        raise Unsupported("assignment target %s" % type(target).__name__)

    def setitem(self, base, idx, v, st, ctx, node):
        if base.none is not None:
            ctx.exc(base.none, "TypeError", node)
        if base.ty.kind == "dict":
            kt = self.coerce(idx, base.ty.args[0], st).t
            vt = self.coerce(v, base.ty.args[1], st).t
            self.dict_set(base, kt, vt, st)
            return
        if base.ty.kind == "list":
            i = self.num(idx, st).t
            n = st.list_len(base.ty, base.t)
            ctx.exc(z3.Or(i >= n, i < -n), "IndexError", node)
            ii = z3.If(i < 0, i + n, i)
            st.set_list(base.ty, base.t, elems=z3.Store(st.list_elems(base.ty, base.t), ii,
                                                        self.coerce(v, base.ty.args[0], st).t))
            return
        if base.ty.kind == "obj" and idx.ty.kind == "str" and z3.is_string_value(idx.t):
            f = idx.t.as_string()
            decl = self.reg.classes.get(base.ty.args[0])
            if decl is None or f not in decl["fields"]:
                raise Unsupported("record %s has no field %r" % (base.ty.args[0], f))
            fty = decl["fields"][f]
            st.set_field(base.ty.args[0], f, fty, base.t, self.coerce(v, fty, st).t)
            return
        raise Unsupported("item assignment on %r (line %s)" % (base.ty, node.lineno))

    def exec_AugAssign(self, node, st):
        ctx = self.new_ctx(st)
        t = node.target
        if isinstance(t, ast.Name):
            cur = self.ev(t, st, ctx)
            if cur.ty.kind == "fun":
                raise Unsupported("augmented assignment to unknown name %s" % t.id)
            rhs = self.ev(node.value, st, ctx)
            if cur.ty.kind == "list" and isinstance(node.op, ast.Add):
                raise Unsupported("list += (in place)")
            st.locals[t.id] = self.binop(node.op, cur, rhs, st, ctx, node)
        elif isinstance(t, ast.Subscript):
            base = self.ev(t.value, st, ctx)
            idx = self.ev(t.slice, st, ctx)
            cur = self.getitem(base, idx, st, ctx, node)
            rhs = self.ev(node.value, st, ctx)
            self.setitem(base, idx, self.binop(node.op, cur, rhs, st, ctx, node), st, ctx, node)
        elif isinstance(t, ast.Attribute):
            base = self.ev(t.value, st, ctx)
            cur = self.getattr_sv(base, t.attr, st, ctx, node)
            rhs = self.ev(node.value, st, ctx)
            nv = self.binop(node.op, cur, rhs, st, ctx, node)
            self.assign(t, nv, st, ctx, node)
        else:
            raise Unsupported("augmented assignment target")
        return self.split(st, ctx, node) + [st]

    def exec_Delete(self, node, st):
        ctx = self.new_ctx(st)
        for t in node.targets:
            if isinstance(t, ast.Name):
                st.locals.pop(t.id, None)
            elif isinstance(t, ast.Subscript):
                base = self.ev(t.value, st, ctx)
                if base.ty.kind != "dict":
                    raise Unsupported("del on %r" % base.ty)
                kt = self.coerce(self.ev(t.slice, st, ctx), base.ty.args[0], st).t
                ctx.exc(z3.Not(st.dict_dom(base.ty, base.t)[kt]), "KeyError", node)
                self.dict_del(base, kt, st)
            else:
                raise Unsupported("del target")
        return self.split(st, ctx, node) + [st]

    def exec_Return(self, node, st):
        ctx = self.new_ctx(st)
        v = self.ev_hinted(node.value, self.cur_contract.returns, st, ctx) if node.value is not None else mk_none()
        if v.ty.kind == "strlist":
            v = self.materialize_split(v, st)
        out = self.split(st, ctx, node)
        st.ret = v
        st.flow = "return"
        return out + [st]

    def exec_Raise(self, node, st):
        ctx = self.new_ctx(st)
        if node.exc is None:
            st.flow = "raise"
            st.exc = st.ghost.get("_handling_cls", SV(FUN, py="Exception")).py
            return [st]
        e = node.exc
        msg = None
        if isinstance(e, ast.Call):
            cls = self.dotted(e.func)
            if e.args:
                try:
                    a = self.ev(e.args[0], st, ctx)
                    if a.ty.kind == "str":
                        msg = a
                except Unsupported:
                    msg = None
        elif isinstance(e, ast.Name):
            cls = e.id
        else:
            raise Unsupported("raise form")
        out = self.split(st, ctx, node)
        st.flow = "raise"
        st.exc = cls.split(".")[-1]
        st.exc_msg = msg
        st.trace.append("raise %s @%s" % (st.exc, node.lineno))
        return out + [st]

    def exec_Assert(self, node, st):
        ctx = self.new_ctx(st)
        c = self.truthy(self.ev(node.test, st, ctx), st)
        out = self.split(st, ctx, node)
        bad = st.copy()
        bad.assume(z3.Not(c))
        if not self.quick_infeasible(bad):
            bad.flow = "raise"
            bad.exc = "AssertionError"
            bad.exc_msg = None
            bad.trace.append("assert fails @%s" % node.lineno)
            out.append(bad)
        st.assume(c)
        return out + [st]

    def exec_Continue(self, node, st):
        st.flow = "continue"
        return [st]

    def exec_Break(self, node, st):
        st.flow = "break"
        return [st]

    def exec_Import(self, node, st):
        return [st]

    exec_ImportFrom = exec_Import

    def exec_FunctionDef(self, node, st):
        st.locals[node.name] = SV(FUN, py=("localfun", node))
        return [st]

    def exec_Global(self, node, st):
        raise Unsupported("global statement")

    # ------------------------------------------------------------------ branching
    def exec_If(self, node, st):
        ctx = self.new_ctx(st)
        c = z3.simplify(self.truthy(self.ev(node.test, st, ctx), st))
        out = self.split(st, ctx, node)
        if z3.is_true(c):
            return out + self.exec_block(node.body, st)
        if z3.is_false(c):
            return out + self.exec_block(node.orelse, st)
        a = st.copy()
        a.assume(c)
        a.trace.append("if@%d:T" % node.lineno)
        b = st
        b.assume(z3.Not(c))
        b.trace.append("if@%d:F" % node.lineno)
        res = out
        if self.prune and not self.feasible(a):
            pass
        else:
            res = res + self.exec_block(node.body, a)
        if self.prune and not self.feasible(b):
            pass
        else:
            res = res + self.exec_block(node.orelse, b)
        return res

    def exec_Try(self, node, st):
        outs = self.exec_block(node.body, st)
        res = []
        for o in outs:
            if o.flow == "raise":
                handled = False
                for h in node.handlers:
                    names = []
                    if h.type is None:
                        names = ["BaseException"]
                    elif isinstance(h.type, ast.Tuple):
                        names = [self.dotted(x).split(".")[-1] for x in h.type.elts]
                    else:
                        names = [self.dotted(h.type).split(".")[-1]]
                    if any(self.exc_matches(o.exc, n) for n in names):
                        o.flow = None
                        cls = o.exc
                        msg = o.exc_msg
                        o.exc = None
                        if h.name:
                            if msg is None:
                                msg = mk_str(z3.String(fresh_name("excmsg")))
                            o.locals[h.name] = SV(Ty("exc"), msg.t, py=cls)
                        o.ghost["_handling_cls"] = SV(FUN, py=cls)
                        o.trace.append("except %s @%s" % (cls, h.lineno))
                        hs = self.exec_block(h.body, o)
                        for x in hs:
                            x.ghost.pop("_handling_cls", None)
                            if h.name:
                                x.locals.pop(h.name, None)
                        res.extend(hs)
                        handled = True
                        break
                if not handled:
                    res.append(o)
            elif o.flow is None and node.orelse:
                res.extend(self.exec_block(node.orelse, o))
            else:
                res.append(o)
        if node.finalbody:
            fin = []
            for o in res:
                saved = (o.flow, o.ret, o.exc, o.exc_msg)
                o.flow = None
                for x in self.exec_block(node.finalbody, o):
                    if x.flow is None:
                        x.flow, x.ret, x.exc, x.exc_msg = saved
                    fin.append(x)
            res = fin
        return res

    def exec_With(self, node, st):
        if len(node.items) != 1:
            raise Unsupported("with: several items")
        item = node.items[0]
        ctx = self.new_ctx(st)
        cm = self.ev(item.context_expr, st, ctx)
        out = self.split(st, ctx, node)
        if cm.ty.kind != "cm":
            raise Unsupported("with on %r (line %s)" % (cm.ty, node.lineno))
        if item.optional_vars is not None:
            self.assign(item.optional_vars, cm.py["as"], st, ctx, node)
        res = []
        for o in self.exec_block(node.body, st):
            ex = cm.py.get("exit")
            if ex is not None:
                ex(self, o)
            res.append(o)
        return out + res

    # ------------------------------------------------------------------ loops
    def assigned_names(self, body):
        names = set()

        class V(ast.NodeVisitor):
            def visit_Name(s, n):
                if isinstance(n.ctx, (ast.Store, ast.Del)):
                    names.add(n.id)

            def visit_FunctionDef(s, n):
                names.add(n.name)

            def visit_ListComp(s, n):
                pass

            def visit_GeneratorExp(s, n):
                pass

            def visit_DictComp(s, n):
                pass

            def visit_SetComp(s, n):
                pass

            def visit_ExceptHandler(s, n):
                if n.name:
                    names.add(n.name)
                s.generic_visit(n)

        for b in body:
            V().visit(b)
        return names

    def havoc_like(self, name, sv, st):
        if sv.ty.kind == "tuple":
            return mk_tuple([self.havoc_like(name, i, st) for i in sv.items])
        if sv.ty.kind in ("fun", "exc", "gen", "keys", "items", "values", "enumerate", "zip", "range", "cm", "strlist", "map"):
            return sv
        if sv.ty.kind == "none":
            return sv
        t = self.fresh_const(name, sv.ty)
        none = z3.Bool(fresh_name(name + "_isnone")) if sv.none is not None else None
        r = SV(sv.ty, t, none, py=sv.py)
        if sv.ty.is_ref:
            f = z3.And(0 <= t, t < st.alloc)
            st.assume(z3.Implies(z3.Not(none), f) if none is not None else f)
        return r

    def loop_setup(self, node, st):
        """common part of For/While: returns (spec dict, label name)"""
        ordv = self.loop_ord[id(node)]
        spec = self.cur_contract.loops.get(ordv)
        if spec is None:
            spec = {"inv": []}
            self.notes.add("loop %d of %s has no invariant (treated as 'true')" % (ordv, self.cur_contract.qualname))
        return ordv, spec

    def check_invs(self, spec, ordv, st, kind, node):
        for i, inv in enumerate(spec.get("inv", [])):
            g = self.ev_spec(inv, st, old=self.entry, labels=self.labels)
            self.oblige(st, None, g, kind, "loop%d.inv[%d]" % (ordv, i), node,
                        "%s invariant of loop %d: %s" % (kind, ordv, inv))

    def assume_invs(self, spec, st):
        for inv in spec.get("inv", []):
            st.assume(self.ev_spec(inv, st, old=self.entry, labels=self.labels))

    def dry_run(self, node, body_runner, E, names):
        """execute the body once on a havocked copy to learn which heap arrays / references it writes"""
        mark = next(_ctr)
        H = E.copy()
        for n in sorted(names):
            if n in H.locals:
                H.locals[n] = self.havoc_like(n, H.locals[n], H)
        H.writes = {}
        self.suppress += 1
        try:
            outs = body_runner(H)
        finally:
            self.suppress -= 1
        w = H.writes
        # types of locals first assigned inside the loop
        newtypes = {}
        for o in outs:
            for n in sorted(names):
                if n in o.locals and n not in E.locals:
                    newtypes.setdefault(n, o.locals[n])
        plan = {}
        written = set(w.keys())

        def arr_base(nm):
            if nm.startswith("H0."):
                return nm[3:]
            return nm.rsplit("!", 1)[0] if "!" in nm else nm

        def mentions_fresh(x0):
            todo = [x0]
            seen = set()
            while todo:
                x = todo.pop()
                if x.get_id() in seen:
                    continue
                seen.add(x.get_id())
                if z3.is_const(x) and x.decl().kind() == z3.Z3_OP_UNINTERPRETED:
                    nm = x.decl().name()
                    if z3.is_array(x):
                        if arr_base(nm) in written:
                            return True
                    else:
                        num = int(nm.rsplit("!", 1)[1]) if "!" in nm and nm.rsplit("!", 1)[1].isdigit() else -1
                        if num >= mark:
                            return True
                elif z3.is_var(x) or z3.is_quantifier(x):
                    return True
                todo.extend(x.children())
            return False

        def classify(r):
            """'stable' | 'local' (allocated inside the iteration) | ('member', list ref, elem array name) | 'varying'"""
            if z3.is_const(r) and r.decl().kind() == z3.Z3_OP_UNINTERPRETED and r.decl().name().startswith("ref!"):
                nm = r.decl().name()
                return "local" if int(nm.rsplit("!", 1)[1]) >= mark else "stable"
            if not mentions_fresh(r):
                return "stable"
            # element of a list that is itself stable: select(select(L.<tag>.elem, listref), index)
            if z3.is_app(r) and r.decl().kind() == z3.Z3_OP_SELECT:
                inner = r.arg(0)
                if z3.is_app(inner) and inner.decl().kind() == z3.Z3_OP_SELECT:
                    base, lref = inner.arg(0), inner.arg(1)
                    b = base
                    while z3.is_app(b) and b.decl().kind() == z3.Z3_OP_STORE:
                        b = b.arg(0)
                    if z3.is_const(b):
                        nm = arr_base(b.decl().name())
                        if nm.startswith("L.") and nm.endswith(".elem") and nm not in written and not mentions_fresh(lref) \
                                and nm[:-5] + ".len" not in written:
                            return ("member", lref, nm)
            return "varying"

        for name, refs in w.items():
            if refs == "ALL":
                plan[name] = "ALL"
                continue
            stable = []
            allp = False
            for r in refs:
                c = classify(r)
                if c == "stable":
                    stable.append(r)
                elif isinstance(c, tuple):
                    if not any(isinstance(x, tuple) and z3.eq(x[1], c[1]) and x[2] == c[2] for x in stable):
                        stable.append(c)
                elif c == "varying":
                    allp = True
            plan[name] = "ALL" if allp else stable
        return plan, newtypes

    def havoc_heap(self, plan, E, L):
        r = z3.Int(fresh_name("r"))
        for name, what in plan.items():
            old = E.heap.get(name)
            if old is None:
                old = self.heap0_existing(name)
            new = z3.Const(fresh_name(name), old.sort())
            L.heap[name] = new
            if what != "ALL":
                conds = [0 <= r, r < E.alloc]
                for s_ in what:
                    if isinstance(s_, tuple):
                        # any element of a (stable) list may be written: everything outside the list is framed
                        _, lref, enm = s_
                        earr = E.heap.get(enm, self._heap0.get(enm))
                        larr = E.heap.get(enm[:-5] + ".len", self._heap0.get(enm[:-5] + ".len"))
                        if earr is None or larr is None:
                            conds = None
                            break
                        es = earr.sort().range().range()
                        MEM = self.uf("MEM_" + str(es), [I, z3.ArraySort(I, es)], z3.ArraySort(es, B))
                        self.mem_facts(larr[lref], earr[lref], es)
                        conds.append(z3.Not(MEM(larr[lref], earr[lref])[r]))
                    else:
                        conds.append(r != s_)
                if conds is not None:
                    L.assume(z3.ForAll([r], z3.Implies(z3.And(*conds), new[r] == old[r]), patterns=[new[r]]))
            self.canon_assume(name, new, L)

    def loop_head(self, E, names, plan, newtypes):
        L = E.copy()
        for n in sorted(names):
            if n in L.locals:
                L.locals[n] = self.havoc_like(n, L.locals[n], L)
        self.havoc_heap(plan, E, L)
        na = z3.Int(fresh_name("alloc"))
        L.assume(na >= E.alloc)
        L.alloc = na
        return L

    def exec_While(self, node, st):
        if node.orelse:
            raise Unsupported("while-else")
        ordv, spec = self.loop_setup(node, st)
        E = st
        self.labels["loop%d" % ordv] = E.copy()
        self.check_invs(spec, ordv, E, "loop-init", node)
        names = self.assigned_names(node.body)

        def run_body(s):
            ctx = self.new_ctx(s)
            c = self.truthy(self.ev(node.test, s, ctx), s)
            s.assume(c)
            return self.exec_block(node.body, s)

        plan, newtypes = self.dry_run(node, run_body, E, names)
        L = self.loop_head(E, names, plan, newtypes)
        self.assume_invs(spec, L)
        res = []
        B = L.copy()
        ctx = self.new_ctx(B)
        c = self.truthy(self.ev(node.test, B, ctx), B)
        res += self.split(B, ctx, node)
        X = B.copy()
        B.assume(c)
        for o in self.exec_block(node.body, B):
            if o.flow in (None, "continue"):
                o.flow = None
                self.check_invs(spec, ordv, o, "loop-preserve", node)
            elif o.flow == "break":
                o.flow = None
                res.append(o)
            else:
                res.append(o)
        X.assume(z3.Not(c))
        res.append(X)
        return res

    def exec_For(self, node, st):
        if node.orelse:
            raise Unsupported("for-else")
        ordv, spec = self.loop_setup(node, st)
        ctx = self.new_ctx(st)
        it = self.ev(node.iter, st, ctx)
        res = self.split(st, ctx, node)
        if it.ty.kind == "strlist":
            it = self.materialize_split(it, st)
        E = st
        kind = it.ty.kind
        names = self.assigned_names(node.body) | self.assigned_names([ast.Assign(targets=[node.target], value=ast.Constant(0))])
        dictlike = kind in ("dict", "keys", "items", "values")
        if dictlike:
            d = it if kind == "dict" else it.py
            kty = d.ty.args[0]
            dom0 = E.dict_dom(d.ty, d.t)
            empty = z3.K(kty.sort(), z3.BoolVal(False))
            E.ghost["_done"] = SV(SetT(kty), empty)

            def bind(s, g):
                k = z3.Const(fresh_name("k"), kty.sort())
                s.assume(z3.And(dom0[k], z3.Not(g.t[k])))
                ksv = SV(kty, k)
                if kind in ("dict", "keys"):
                    val = ksv
                else:
                    v = self.wrap(s.dict_val(d.ty, d.t)[k], d.ty.args[1])
                    if d.ty.args[1].is_ref:
                        s.assume(z3.And(0 <= v.t, v.t < s.alloc))
                    val = v if kind == "values" else mk_tuple([ksv, v])
                c2 = self.new_ctx(s)
                self.assign(node.target, val, s, c2, node)
                s.ghost["_cur_key"] = ksv
                return k

            def fresh_ghost(s):
                g = z3.Const(fresh_name("done"), z3.ArraySort(kty.sort(), B))
                kk = z3.Const(fresh_name("k"), kty.sort())
                s.assume(z3.ForAll([kk], z3.Implies(g[kk], dom0[kk])))
                s.ghost["_done"] = SV(SetT(kty), g)
                return s.ghost["_done"]

            def advance(s, g, k):
                s.ghost["_done"] = SV(SetT(kty), z3.Store(g.t, k, z3.BoolVal(True)))

            def at_exit(s, g):
                kk = z3.Const(fresh_name("k"), kty.sort())
                s.assume(z3.ForAll([kk], z3.Implies(dom0[kk], g.t[kk])))
        else:
            if kind == "list":
                n = E.list_len(it.ty, it.t)
                elem = lambda s, i: self.wrap(s.list_elems(it.ty, it.t)[i], it.ty.args[0])  # noqa
                refelem = it.ty.args[0].is_ref
            elif kind == "enumerate":
                l = it.py
                if l.ty.kind != "list":
                    raise Unsupported("enumerate over %r" % l.ty)
                n = E.list_len(l.ty, l.t)
                elem = lambda s, i: mk_tuple([mk_int(i), self.wrap(s.list_elems(l.ty, l.t)[i], l.ty.args[0])])  # noqa
                refelem = False
            elif kind == "zip":
                ls = it.py
                if any(l.ty.kind != "list" for l in ls):
                    raise Unsupported("zip over non-lists")
                lens = [E.list_len(l.ty, l.t) for l in ls]
                n = lens[0]
                for x in lens[1:]:
                    n = z3.If(x < n, x, n)
                elem = lambda s, i: mk_tuple([self.wrap(s.list_elems(l.ty, l.t)[i], l.ty.args[0]) for l in ls])  # noqa
                refelem = False
            elif kind == "range":
                lo, hi = it.py
                n = z3.If(hi - lo < 0, 0, hi - lo)
                elem = lambda s, i: mk_int(lo + i)  # noqa
                refelem = False
            else:
                raise Unsupported("for over %r (line %s)" % (it.ty, node.lineno))
            nn = z3.Int(fresh_name("n"))
            E.assume(nn == n)
            E.ghost["_i"] = mk_int(0)
            E.ghost["_n"] = mk_int(nn)

            def bind(s, g):
                v = elem(s, g.t)
                for x in ([v] if v.items is None else v.items):
                    if x.ty.is_ref:
                        s.assume(z3.And(0 <= x.t, x.t < s.alloc))
                c2 = self.new_ctx(s)
                self.assign(node.target, v, s, c2, node)
                return None

            def fresh_ghost(s):
                i = z3.Int(fresh_name("i"))
                s.assume(z3.And(0 <= i, i <= nn))
                s.ghost["_i"] = mk_int(i)
                return s.ghost["_i"]

            def advance(s, g, k):
                s.ghost["_i"] = mk_int(g.t + 1)

            def at_exit(s, g):
                s.assume(g.t == nn)
        E.ghost["_i%d" % ordv] = E.ghost.get("_i", mk_int(0))
        self.labels["loop%d" % ordv] = E.copy()
        self.check_invs(spec, ordv, E, "loop-init", node)

        def run_body(s):
            g = fresh_ghost(s)
            if not dictlike:
                s.assume(g.t < nn)
            bind(s, g)
            return self.exec_block(node.body, s)

        plan, newtypes = self.dry_run(node, run_body, E, names)
        L = self.loop_head(E, names, plan, newtypes)
        g = fresh_ghost(L)
        self.assume_invs(spec, L)
        Bst = L.copy()
        if not dictlike:
            Bst.assume(g.t < nn)
        k = bind(Bst, g)
        for o in self.exec_block(node.body, Bst):
            if o.flow in (None, "continue"):
                o.flow = None
                advance(o, g, k)
                if dictlike:
                    self.oblige(o, None, o.dict_dom(d.ty, d.t) == dom0, "dict-iteration",
                                "loop%d.keys-unchanged" % ordv, node,
                                "the key set of the dictionary being iterated is not changed by the body")
                else:
                    if kind in ("list", "enumerate"):
                        l = it if kind == "list" else it.py
                        self.oblige(o, None, o.list_len(l.ty, l.t) == nn, "list-iteration",
                                    "loop%d.len-unchanged" % ordv, node,
                                    "the list being iterated keeps its length")
                self.check_invs(spec, ordv, o, "loop-preserve", node)
            elif o.flow == "break":
                o.flow = None
                o.ghost.pop("_done", None)
                res.append(o)
            else:
                res.append(o)
        X = L
        at_exit(X, g)
        res.append(X)
        return res
