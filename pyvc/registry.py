"""Contract registry: sidecar contracts for real functions in /repo, class declarations,
spec functions, axioms (trusted) and lemmas (proved)."""
from .vtypes import *  # noqa


class Contract:
    def __init__(self, file, qualname, params, returns=None, requires=(), ensures=(), raises=None,
                 ensures_exc=None, modifies=(), loops=None, pure=False, fresh_result=False,
                 props=(), assumed=False, note="", types=None, locals_types=None, inline_ok=False,
                 allow_exc=(), shards=1, cuts=None, sites=None):
        self.file = file
        self.qualname = qualname
        self.params = dict(params)  # name -> Ty (or ('opt', Ty))
        self.returns = returns
        self.requires = list(requires)
        self.ensures = list(ensures)
        self.raises = dict(raises or {})  # exc class name -> condition (spec expr over entry state) or None
        self.ensures_exc = dict(ensures_exc or {})  # exc class name -> [spec exprs] holding on that exit
        self.modifies = list(modifies)  # spec exprs denoting refs, or "*<heap array name>" for whole arrays
        self.loops = dict(loops or {})  # ordinal -> {"inv": [...]}
        self.pure = pure
        self.fresh_result = fresh_result
        self.props = list(props)  # property ids this contract serves
        self.assumed = assumed  # True: not verified against a body (dependency or out-of-subset); trusted
        self.note = note
        self.locals_types = dict(locals_types or {})
        self.allow_exc = tuple(allow_exc)
        self.shards = shards
        # program-point assertions acting as abstraction barriers: 'statement source prefix[@n]' -> [spec exprs]
        self.cuts = dict(cuts or {})
        self.sites = dict(sites or {})   # 'dotted callee@n' (n-th call in source order, any depth) -> assertions proved there

    @property
    def key(self):
        return self.qualname


class Registry:
    def __init__(self):
        self.contracts = {}  # qualname -> Contract
        self.classes = {}  # class name -> {"fields": {name: Ty}, "file":..., "consts": {...}}
        self.specfuns = {}  # name -> (argtys, retty)
        self.specfun_alias = {}  # name -> symbol of a pure program function's value
        self.z3axiom_scope = {}  # axiom name -> set of qualnames it is supplied to (absent: all)
        self.axioms = []  # (name, expr string)  TRUSTED
        self.lemmas = []  # (name, props, hyps[expr], goal expr, binders)
        self.externals = {}  # dotted name -> python handler(engine, st, args, kwargs, node) -> SV
        self.specbuiltins = {}  # name -> handler(engine, node, st, ctx) -> SV
        self.z3axioms = []  # (name, builder(engine) -> [z3 formulas], text)  TRUSTED
        self.z3lemmas = []  # (name, props, builder(engine) -> [(label, hyps, goal)])  PROVED

    def contract(self, *a, **k):
        c = Contract(*a, **k)
        self.contracts[c.qualname] = c
        return c

    def classdecl(self, name, fields, file=None):
        """declare (or extend) the modelled fields of a class: several contract modules may each name the fields they need"""
        old = self.classes.get(name)
        if old is not None and not old.get("record"):
            merged = dict(old["fields"])
            for f, t in fields.items():
                if f in merged and merged[f] != t:
                    raise ValueError("class %s: field %s declared with two types (%r, %r)" % (name, f, merged[f], t))
                merged[f] = t
            self.classes[name] = {"fields": merged, "file": file or old.get("file")}
            return
        self.classes[name] = {"fields": dict(fields), "file": file}

    def record(self, name, fields):
        """a dict with a fixed set of constant string keys, modelled as an object with fields"""
        self.classes[name] = {"fields": dict(fields), "file": None, "record": True}

    def specfun(self, name, argtys, retty, value_of=None):
        """an uninterpreted specification function; with value_of='qualname' it is *defined* as the value function of that
        pure program function (the same symbol the prover uses for calls to it)"""
        self.specfuns[name] = (list(argtys), retty)
        if value_of is not None:
            self.specfun_alias[name] = "F_" + value_of.replace(".", "_")

    def axiom(self, name, expr):
        self.axioms.append((name, expr))

    def lemma(self, name, props, binders, hyps, goal):
        self.lemmas.append((name, list(props), dict(binders), list(hyps), goal))

    def specbuiltin(self, name):
        def deco(f):
            self.specbuiltins[name] = f
            return f
        return deco

    def axiom_z3(self, name, builder, text, only=None):
        """a trusted z3 fact; with only=[qualnames] it is supplied only while those functions are verified"""
        self.z3axioms.append((name, builder, text))
        if only is not None:
            self.z3axiom_scope[name] = set(only)

    def lemma_z3(self, name, props, builder):
        self.z3lemmas.append((name, list(props), builder))

    def external(self, dotted):
        def deco(f):
            self.externals[dotted] = f
            return f
        return deco
