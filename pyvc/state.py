"""Symbolic state: locals, functional heap of z3 arrays, path condition."""
import itertools
import z3
from .vtypes import *  # noqa

_ctr = itertools.count()


_last = [0]


def fresh_name(base):
    _last[0] = next(_ctr)
    return "%s!%d" % (base, _last[0])


def fresh_mark():
    """the number of the most recent fresh name (names made later have larger numbers)"""
    return _last[0]


def default_of(sort):
    if sort == I:
        return z3.IntVal(0)
    if sort == B:
        return z3.BoolVal(False)
    if sort == S:
        return z3.StringVal("")
    if sort == R:
        return z3.RealVal(0)
    if sort == Val:
        return Val.VNone
    if sort.kind() == z3.Z3_DATATYPE_SORT and sort.num_constructors() == 1:  # tuple sort
        c = sort.constructor(0)
        return c(*[default_of(c.domain(i)) for i in range(c.arity())])
    raise TypeError(sort)


class Unsupported(Exception):
    """The function uses something outside the verified subset -> undecided."""


class StaleContract(Exception):
    """The contract names something that no longer exists in the source -> undecided."""


class State:
    def __init__(self, eng):
        self.eng = eng
        self.locals = {}
        self.heap = {}  # array name -> z3 term (missing -> eng.heap0(name))
        self.alloc = None
        self.pc = []
        self.flow = None  # None | 'return' | 'break' | 'continue' | 'raise'
        self.ret = None
        self.exc = None  # exception class name when flow == 'raise'
        self.exc_msg = None  # SV str of the exception message when known
        self.ghost = {}  # name -> SV (loop ghosts)
        self.writes = None  # when recording (dry run): dict array name -> set of ref terms | 'ALL'
        self.trace = []
        self.in_binder = False  # the state evaluates the body of a comprehension / quantifier (one evaluation stands for every binding)
        self.binder_vars = []   # the variables bound by the enclosing binders

    def copy(self):
        s = State(self.eng)
        s.in_binder = self.in_binder
        s.binder_vars = list(self.binder_vars)
        s.locals = dict(self.locals)
        s.heap = dict(self.heap)
        s.alloc = self.alloc
        s.pc = list(self.pc)
        s.flow = self.flow
        s.ret = self.ret
        s.exc = self.exc
        s.exc_msg = self.exc_msg
        s.ghost = dict(self.ghost)
        s.writes = self.writes  # shared on purpose
        s.trace = list(self.trace)
        return s

    def assume(self, f):
        if z3.is_true(f):
            return
        self.pc.append(f)

    # ---------------------------------------------------------------- heap arrays
    def arr(self, name, sort):
        if name in self.heap:
            return self.heap[name]
        return self.eng.heap0(name, sort)

    def set_arr(self, name, term, ref=None):
        self.heap[name] = term
        if self.writes is not None:
            cur = self.writes.get(name)
            if cur == "ALL":
                return
            if ref is None:
                self.writes[name] = "ALL"
            else:
                self.writes.setdefault(name, []).append(ref)

    # dict<K,V>
    @staticmethod
    def dict_names(ty):
        k, v = ty.args
        base = "D.%s.%s" % (k.tag(), v.tag())
        return base + ".dom", base + ".val"

    def dict_dom(self, ty, ref):
        n, _ = self.dict_names(ty)
        return self.arr(n, z3.ArraySort(I, z3.ArraySort(ty.args[0].sort(), B)))[ref]

    def dict_val(self, ty, ref):
        _, n = self.dict_names(ty)
        return self.arr(n, z3.ArraySort(I, z3.ArraySort(ty.args[0].sort(), ty.args[1].sort())))[ref]

    def set_dict(self, ty, ref, dom=None, val=None):
        dn, vn = self.dict_names(ty)
        ks, vs = ty.args[0].sort(), ty.args[1].sort()
        if dom is not None:
            self.set_arr(dn, z3.Store(self.arr(dn, z3.ArraySort(I, z3.ArraySort(ks, B))), ref, dom), ref)
        if val is not None:
            self.set_arr(vn, z3.Store(self.arr(vn, z3.ArraySort(I, z3.ArraySort(ks, vs))), ref, val), ref)

    # list<T>
    @staticmethod
    def list_names(ty):
        base = "L.%s" % ty.args[0].tag()
        return base + ".len", base + ".elem"

    def list_len(self, ty, ref):
        n, _ = self.list_names(ty)
        return self.arr(n, z3.ArraySort(I, I))[ref]

    def list_elems(self, ty, ref):
        _, n = self.list_names(ty)
        return self.arr(n, z3.ArraySort(I, z3.ArraySort(I, ty.args[0].sort())))[ref]

    def set_list(self, ty, ref, length=None, elems=None):
        ln, en = self.list_names(ty)
        if length is not None:
            self.set_arr(ln, z3.Store(self.arr(ln, z3.ArraySort(I, I)), ref, length), ref)
        if elems is not None:
            es = ty.args[0].sort()
            self.set_arr(en, z3.Store(self.arr(en, z3.ArraySort(I, z3.ArraySort(I, es))), ref, elems), ref)

    # object fields
    def field(self, cls, fname, fty, ref):
        return self.arr("O.%s.%s" % (cls, fname), z3.ArraySort(I, _field_sort(fty)))[ref]

    def set_field(self, cls, fname, fty, ref, term):
        n = "O.%s.%s" % (cls, fname)
        self.set_arr(n, z3.Store(self.arr(n, z3.ArraySort(I, _field_sort(fty))), ref, term), ref)

    # allocation
    def new_ref(self):
        if self.in_binder:
            # one symbolic evaluation of the body stands for all bindings: a single new reference would make every binding share
            # one object.  The object is an injective function of the bound variables, somewhere between the allocation bound
            # before and a new bound after (as for calls through a contract inside a comprehension, see call_contract)
            if not self.binder_vars:
                raise Unsupported("object construction inside a quantifier body without bound variables")
            vs = list(self.binder_vars)
            fn = z3.Function(fresh_name("bref"), *([v.sort() for v in vs] + [I]))
            fr = fn(*vs)
            na = z3.Int(fresh_name("alloc"))
            self.assume(z3.And(self.alloc <= fr, fr < na))
            v2 = [z3.Const(fresh_name("b"), v.sort()) for v in vs]
            self.eng.facts.append(z3.ForAll(vs + v2, z3.Implies(fn(*vs) == fn(*v2), z3.And(*[a == b for a, b in zip(vs, v2)])),
                                            patterns=[z3.MultiPattern(fn(*vs), fn(*v2))]))
            self.alloc = na
            return fr
        r = self.alloc
        fr = z3.Int(fresh_name("ref"))
        self.assume(fr == r)
        self.alloc = r + 1
        return fr


def _field_sort(fty):
    """fields that may be None are stored boxed (Val)"""
    if fty.kind == "opt":
        return Val
    return fty.sort()
