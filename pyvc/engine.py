"""pyvc engine: extracts real functions from /repo, generates verification conditions against sidecar
contracts and discharges them with z3 (cvc5 for what z3 leaves unknown)."""
import ast
import hashlib
import os
import subprocess
import tempfile
import time
import z3

from .vtypes import *  # noqa
from .state import State, Unsupported, StaleContract, fresh_name, default_of, _field_sort
from .exprs import ExprMixin, Ctx
from .calls import CallMixin
from .spec import SpecMixin
from .stmts import StmtMixin

REPO = os.environ.get("SYNRBL_REPO", "/repo")


class Obligation:
    def __init__(self, fn, key, kind, lineno, hyps, goal, desc, trace):
        self.fn = fn
        self.key = key  # stable key within the function (clause / loop / site)
        self.kind = kind
        self.lineno = lineno
        self.hyps = hyps
        self.goal = goal
        self.desc = desc
        self.trace = trace
        self.verdict = None  # 'proved' | 'failed' | 'unknown'
        self.backend = None
        self.time = 0.0
        self.model = None

    @property
    def oid(self):
        return "%s/%s" % (self.fn, self.key)


class FunctionResult:
    def __init__(self, qualname, file):
        self.qualname = qualname
        self.file = file
        self.status = "ok"  # ok | undecided
        self.reason = ""
        self.obligations = []
        self.sha = ""
        self.paths = 0
        self.dropped = []
        self.notes = []
        self.called = []


def symbol_names(formulas, prefix):
    """names of the function symbols with the given prefix that occur in the formulas"""
    seen, out, stack = set(), set(), list(formulas)
    while stack:
        t = stack.pop()
        i = t.get_id()
        if i in seen:
            continue
        seen.add(i)
        if z3.is_quantifier(t):
            stack.append(t.body())
        elif z3.is_app(t):
            n = t.decl().name()
            if n.startswith(prefix):
                out.add(n)
            stack.extend(t.children())
    return out


class Engine(ExprMixin, CallMixin, SpecMixin, StmtMixin):
    def __init__(self, registry, repo=REPO):
        self.reg = registry
        self.repo = repo
        self._ufs = {}
        self._memfacts = set()
        self._spec_cache = {}
        self._ast_cache = {}
        self._heap0 = {}
        self.facts = []
        self.assume_types = True
        self.max_paths = 400
        self.prune = True
        self.suppress = 0
        self.obls = []
        self.labels = {}
        self.hint_elem = None
        self.hint_dict = None
        self.cur_class = None
        self.cur_qual = None
        self.cur_contract = None
        self.module_consts = {}
        self.exc_parents = {}
        self.dropped = set()
        self.notes = set()
        self.called = set()
        self.entry = None

    # ------------------------------------------------------------------ source access
    def load_module(self, file):
        if file in self._ast_cache:
            return self._ast_cache[file]
        path = os.path.join(self.repo, file)
        with open(path) as f:
            src = f.read()
        tree = ast.parse(src)
        self._ast_cache[file] = (tree, src)
        return tree, src

    def find_function_opt(self, file, qualname):
        if file is None:
            return None
        try:
            return self.find_function(file, qualname)
        except (StaleContract, FileNotFoundError):
            return None

    def find_function(self, file, qualname):
        tree, _ = self.load_module(file)
        node = tree
        for part in qualname.split("."):
            found = None
            for ch in ast.iter_child_nodes(node) if not isinstance(node, ast.Module) else node.body:
                if isinstance(ch, (ast.FunctionDef, ast.ClassDef)) and ch.name == part:
                    found = ch
                    break
            if found is None and not isinstance(node, ast.Module):
                # nested function anywhere inside the body
                for ch in ast.walk(node):
                    if isinstance(ch, (ast.FunctionDef, ast.ClassDef)) and ch.name == part and ch is not node:
                        found = ch
                        break
            if found is None:
                raise StaleContract("%s not found in %s" % (qualname, file))
            node = found
        if not isinstance(node, ast.FunctionDef):
            raise StaleContract("%s is not a function" % qualname)
        return node

    def function_sha(self, file, fn):
        _, src = self.load_module(file)
        seg = ast.get_source_segment(src, fn) or ""
        return hashlib.sha256(seg.encode()).hexdigest()[:16]

    def collect_module_consts(self, file):
        """module-level NAME = <literal> and class-level constants (read from the real source)"""
        tree, _ = self.load_module(file)
        consts = {}
        for n in tree.body:
            if isinstance(n, ast.Assign) and len(n.targets) == 1 and isinstance(n.targets[0], ast.Name):
                try:
                    consts[n.targets[0].id] = ast.literal_eval(n.value)
                except Exception:
                    pass
            if isinstance(n, ast.ClassDef):
                bases = [self.dotted(b) for b in n.bases]
                if bases and bases[0]:
                    self.exc_parents[n.name] = bases[0].split(".")[-1]
                for m in n.body:
                    if isinstance(m, ast.Assign) and len(m.targets) == 1 and isinstance(m.targets[0], ast.Name):
                        try:
                            consts["%s.%s" % (n.name, m.targets[0].id)] = ast.literal_eval(m.value)
                        except Exception:
                            pass
        return consts

    def class_const(self, dotted):
        v = self.module_consts.get(dotted)
        if v is None:
            return None
        if isinstance(v, dict):
            return SV(Ty("pyconst"), py=v)
        return self.const_sv(v, None)

    # ------------------------------------------------------------------ heap
    def heap0(self, name, sort):
        a = self._heap0.get(name)
        if a is None:
            a = z3.Const("H0." + name, sort)
            self._heap0[name] = a
            if name.startswith("L.") and name.endswith(".len"):
                r = z3.Int("r!h0")
                self.facts.append(z3.ForAll([r], a[r] >= 0, patterns=[a[r]]))
            if name.startswith("D.") and name.endswith(".val"):
                ks = sort.range().domain()
                vs = sort.range().range()
                dn = name[:-4] + ".dom"
                dom = self.heap0(dn, z3.ArraySort(I, z3.ArraySort(ks, B)))
                r = z3.Int("r!h0")
                k = z3.Const("k!h0", ks)
                dflt = z3.IntVal(-1) if name.split(".")[2] == "ref" else default_of(vs)
                self.facts.append(z3.ForAll([r, k], z3.Implies(z3.Not(dom[r][k]), a[r][k] == dflt), patterns=[a[r][k]]))
        return a

    def heap0_existing(self, name):
        if name in self._heap0:
            return self._heap0[name]
        raise StaleContract("heap array %s is not known (named in a modifies clause but never used)" % name)

    # ------------------------------------------------------------------ obligations
    def oblige(self, st, ctx, goal, kind, key, node, desc):
        if self.suppress:
            return
        if ctx is not None and not z3.is_true(ctx.guard):
            goal = z3.Implies(ctx.guard, goal)
        if ctx is not None and ctx.binders:
            for vars_, g in reversed(ctx.binders):
                goal = z3.ForAll(vars_, z3.Implies(g, goal))
        o = Obligation(self.cur_contract.qualname, key, kind, getattr(node, "lineno", 0), list(st.pc), goal, desc,
                       list(st.trace))
        self.obls.append(o)

    # ------------------------------------------------------------------ function verification
    def verify_function(self, c):
        res = FunctionResult(c.qualname, c.file)
        self.obls = []
        self.labels = {}
        self.dropped = set()
        self.notes = set()
        self.called = set()
        self.facts = []
        self._heap0 = {}
        self._memfacts = set()
        self.sum_lemmas = []
        for _n, _b, _t in self.reg.z3axioms:
            scope = self.reg.z3axiom_scope.get(_n)
            if scope is None or c.qualname in scope:
                self.facts.extend(_b(self))
        self.cur_contract = c
        self.cur_qual = c.qualname
        parts = c.qualname.split(".")
        try:
            fn = self.find_function(c.file, c.qualname)
            self.cur_fn_node = fn
            res.sha = self.function_sha(c.file, fn)
            self.module_consts = self.collect_module_consts(c.file)
            tree, _ = self.load_module(c.file)
            self.cur_class = None
            node = tree
            for p in parts[:-1]:
                for ch in ast.walk(node):
                    if isinstance(ch, ast.ClassDef) and ch.name == p:
                        self.cur_class = p
                        node = ch
                        break
            self.loop_ord = {}
            k = 0
            for n in self.walk_loops(fn):
                self.loop_ord[id(n)] = k
                k += 1
            for lo in c.loops:
                if lo >= k:
                    raise StaleContract("%s: contract names loop %d but the function has %d loops" % (c.qualname, lo, k))
            self.site_map = {}
            if c.sites:
                cnt = {}
                calls = [n for n in ast.walk(fn) if isinstance(n, ast.Call)]
                calls.sort(key=lambda n: (n.lineno, n.col_offset))
                for n in calls:
                    d = self.dotted(n.func) if isinstance(n.func, (ast.Attribute, ast.Name)) else None
                    if d is None and isinstance(n.func, ast.Attribute):
                        d = "<expr>." + n.func.attr  # method of a computed value, e.g. '.'.join(...)
                    if d is None:
                        continue
                    cnt[d] = cnt.get(d, 0) + 1
                    key = "%s@%d" % (d, cnt[d])
                    if key in c.sites:
                        self.site_map[id(n)] = key
                missing = [k for k in c.sites if k not in self.site_map.values()]
                if missing:
                    raise StaleContract("%s: call site(s) %r not found in the function body" % (c.qualname, missing))
            st = State(self)
            st.alloc = z3.Int("alloc0")
            st.assume(st.alloc >= 0)
            argnames = [a.arg for a in fn.args.posonlyargs + fn.args.args + fn.args.kwonlyargs]
            if fn.args.vararg is not None:
                # *name: the tuple of extra positional arguments is modelled as a list parameter (it is only read)
                argnames.append(fn.args.vararg.arg)
                if fn.args.vararg.arg in c.params and c.params[fn.args.vararg.arg].kind != "list":
                    raise StaleContract("%s: *%s must be given a list type" % (c.qualname, fn.args.vararg.arg))
            for n in c.params:
                if n not in argnames:
                    raise StaleContract("%s: parameter %s is not in the signature" % (c.qualname, n))
            for n in argnames:
                if n not in c.params:
                    # parameter the contract does not talk about: arbitrary untyped value
                    st.locals[n] = SV(VAL, z3.Const("p_" + n, Val))
                    continue
                ty = c.params[n]
                sv = self.param_sv(n, ty, st)
                st.locals[n] = sv
            pre = st.copy()
            self.entry = pre
            for r in c.requires:
                f = self.ev_spec(r, st, old=pre)
                st.assume(f)
            self.entry = st.copy()
            self.entry.pc = list(st.pc)
            self.requires_pc = list(st.pc)
            outs = self.exec_with_cuts(c, fn, st)
            res.paths = len(outs)
            # hypotheses at the exits (normal exits first): used by the reachability guard (a function all of whose exits have
            # contradictory hypotheses proves everything vacuously)
            self.exit_pcs = [list(o.pc) for o in sorted(outs, key=lambda o: o.flow == "raise")]
            for o in outs:
                self.exit_obligations(c, fn, o)
            res.obligations = self.obls
            for ob in res.obligations:
                extra = []
                if self.sum_lemmas:
                    # a sum lemma is attached only where both sums occur (keeps unrelated obligations small)
                    names = symbol_names([ob.goal] + ob.hyps, "psum_")
                    extra = [f for a, b, f in self.sum_lemmas if a in names and b in names]
                ob.hyps = list(self.facts) + extra + ob.hyps
            res.dropped = sorted(self.dropped)
            res.notes = sorted(self.notes)
            res.called = sorted(self.called)
            if not res.obligations:
                res.status = "undecided"
                res.reason = "no obligations generated (vacuous)"
        except Unsupported as e:
            res.status = "undecided"
            res.reason = "outside subset: %s" % e
        except StaleContract as e:
            res.status = "undecided"
            res.reason = "stale contract: %s" % e
        return res

    def exec_with_cuts(self, c, fn, st):
        """top-level statements one by one; before a statement named in contract.cuts the cut formulas are proved
        and then become the only quantified knowledge that is carried on (sound weakening: keeps the VCs small)"""
        from .stmts import has_quant
        if not c.cuts:
            return self.exec_block(fn.body, st)
        points = {}
        count = {}
        for k, stmt in enumerate(fn.body):
            # a cut key is 'dotted callee@n' (n-th top-level statement calling it) or a source prefix of the statement
            callee = None
            node = stmt.value if isinstance(stmt, (ast.Expr, ast.Assign)) else (stmt.test if isinstance(stmt, ast.Assert) else None)
            if isinstance(node, ast.Call):
                callee = self.dotted(node.func)
            try:
                src = ast.unparse(stmt)
            except Exception:
                src = ""
            if callee is not None:
                count[callee] = count.get(callee, 0) + 1
                key = "%s@%d" % (callee, count[callee])
                if key in c.cuts:
                    points[k] = key
                    continue
            for key in c.cuts:
                if "@" not in key and src.startswith(key):
                    points[k] = key
        missing = [k for k in c.cuts if k not in points.values()]
        if missing:
            raise StaleContract("%s: cut point(s) %r not found in the function body" % (c.qualname, missing))
        states = [st]
        for k, stmt in enumerate(fn.body):
            if k in points:
                key = points[k]
                nxt = []
                for x in states:
                    if x.flow is not None:
                        nxt.append(x)
                        continue
                    for i, cut in enumerate(c.cuts[key]):
                        g = self.ev_spec(cut, x, old=self.entry, labels=self.labels)
                        self.oblige(x, None, g, "cut", "cut[%s][%d]" % (key, i), stmt, "at '%s': %s" % (key, cut))
                    y = x.copy()
                    y.pc = list(self.requires_pc) + [f for f in x.pc[len(self.requires_pc):] if not has_quant(f)]
                    for cut in c.cuts[key]:
                        y.assume(self.ev_spec(cut, y, old=self.entry, labels=self.labels))
                    y.trace.append("cut@%s" % key[:30])
                    nxt.append(y)
                states = nxt
            nxt = []
            for x in states:
                if x.flow is not None:
                    nxt.append(x)
                else:
                    nxt.extend(self.exec_stmt(stmt, x))
            states = nxt
        return states

    def walk_loops(self, fn):
        out = []

        def rec(n, top):
            for ch in ast.iter_child_nodes(n):
                if isinstance(ch, (ast.FunctionDef, ast.Lambda, ast.ClassDef)) and not top:
                    continue
                if isinstance(ch, (ast.For, ast.While)):
                    out.append(ch)
                rec(ch, False)
        rec(fn, True)
        return out

    def param_sv(self, n, ty, st):
        if ty.kind == "opt":
            inner = ty.args[0]
            if inner.kind == "val":
                return SV(VAL, z3.Const("p_" + n, Val))
            sv = SV(inner, z3.Const("p_" + n, inner.sort()), none=z3.Bool("p_%s_isnone" % n))
            if inner.is_ref:
                st.assume(z3.Implies(z3.Not(sv.none), z3.And(0 <= sv.t, sv.t < st.alloc)))
            return sv
        if ty.kind == "tuple":
            return mk_tuple([self.param_sv("%s_%d" % (n, i), t, st) for i, t in enumerate(ty.args)])
        sv = SV(ty, z3.Const("p_" + n, ty.sort()))
        if ty.is_ref:
            st.assume(z3.And(0 <= sv.t, sv.t < st.alloc))
            self.reachable_allocated(sv, st, 4)
        return sv

    def reachable_allocated(self, sv, st, depth):
        """everything reachable from a parameter was allocated before the call (heap well-formedness)"""
        if depth == 0:
            return
        ty = sv.ty
        if ty.kind == "obj":
            decl = self.reg.classes.get(ty.args[0])
            if decl is None:
                return
            for f, fty in decl["fields"].items():
                if fty.is_ref:
                    t = st.field(ty.args[0], f, fty, sv.t)
                    st.assume(z3.And(0 <= t, t < st.alloc))
                    self.reachable_allocated(SV(fty, t), st, depth - 1)
        elif ty.kind == "list" and ty.args[0].is_ref:
            j = z3.Int(fresh_name("j"))
            e = st.list_elems(ty, sv.t)
            st.assume(z3.ForAll([j], z3.Implies(z3.And(0 <= j, j < st.list_len(ty, sv.t)),
                                                z3.And(0 <= e[j], e[j] < st.alloc)), patterns=[e[j]]))
            self.reachable_nested(e[j], ty.args[0], st, depth - 1, [j], [z3.And(0 <= j, j < st.list_len(ty, sv.t))])

    def reachable_nested(self, term, ty, st, depth, vars_, guards):
        """well-formedness below the first level of a nested parameter (lists of lists, records in lists)"""
        if depth <= 0:
            return
        def q(f):
            st.assume(z3.ForAll(vars_, z3.Implies(z3.And(*guards), f)))
        if ty.kind == "obj":
            decl = self.reg.classes.get(ty.args[0])
            if decl is None:
                return
            for f, fty in decl["fields"].items():
                if fty.is_ref:
                    t = st.field(ty.args[0], f, fty, term)
                    q(z3.And(0 <= t, t < st.alloc))
                    self.reachable_nested(t, fty, st, depth - 1, vars_, guards)
        elif ty.kind == "list" and ty.args[0].is_ref:
            k = z3.Int(fresh_name("k"))
            e = st.list_elems(ty, term)
            n = st.list_len(ty, term)
            vs, gs = vars_ + [k], guards + [z3.And(0 <= k, k < n)]
            st.assume(z3.ForAll(vs, z3.Implies(z3.And(*gs), z3.And(0 <= e[k], e[k] < st.alloc))))
            self.reachable_nested(e[k], ty.args[0], st, depth - 1, vs, gs)

    def exit_obligations(self, c, fn, o):
        entry = self.entry
        if o.flow == "raise":
            cls = o.exc
            declared = None
            for d in c.raises:
                if self.exc_matches(cls, d):
                    declared = d
                    break
            if declared is None:
                if any(self.exc_matches(cls, a) for a in c.allow_exc):
                    return
                self.oblige(o, None, z3.BoolVal(False), "no-exception", "no-%s" % cls, fn,
                            "no uncaught %s (%s)" % (cls, "; ".join(o.trace[-3:])))
                return
            cond = c.raises[declared]
            if cond:
                es = entry.copy()
                es.pc = list(o.pc)
                g = self.ev_spec(cond, es, old=entry)
                o.pc = es.pc
                self.oblige(o, None, g, "raises", "raises[%s]" % declared, fn,
                            "%s only when: %s" % (declared, cond))
            xs = o.copy()
            xs.locals = dict(entry.locals)
            for i, e in enumerate(c.ensures_exc.get(declared, [])):
                g = self.ev_spec(e, xs, old=entry)
                self.oblige(xs, None, g, "ensures-exc", "ensures_exc[%s][%d]" % (declared, i), fn,
                            "on %s: %s" % (declared, e))
            self.frame_obligation(c, fn, o)
            return
        ret = o.ret if o.flow == "return" and o.ret is not None else mk_none()
        xs = o.copy()
        xs.locals = dict(entry.locals)
        xs.ghost = {k: v for k, v in o.ghost.items() if k.startswith("_filter") or k.startswith("_psum")}
        if c.returns is not None:
            try:
                xs.locals["result"] = self.coerce(ret, c.returns, xs)
            except Unsupported as e:
                raise StaleContract("%s returns %r, contract says %r" % (c.qualname, ret.ty, c.returns))
        for i, e in enumerate(c.ensures):
            g = self.ev_spec(e, xs, old=entry)
            self.oblige(xs, None, g, "ensures", "ensures[%d]" % i, fn, "postcondition: %s" % e)
        if c.fresh_result and c.returns is not None and c.returns.is_ref:
            r = xs.locals["result"]
            self.oblige(xs, None, z3.And(entry.alloc <= r.t, r.t < xs.alloc), "ensures", "fresh-result", fn,
                        "the result is a freshly allocated object")
        self.frame_obligation(c, fn, o)

    def frame_obligation(self, c, fn, o):
        entry = self.entry
        allowed = {}  # array name -> list of z3 predicates over r, or 'ALL'
        r = z3.Int(fresh_name("r"))
        es = entry.copy()
        for m in c.modifies:
            if m.startswith("*"):
                allowed[m[1:]] = "ALL"
            elif m.startswith("each("):
                lsv = self.ev_spec_value(m[5:-1], es, old=entry)
                mem = self.list_mem(entry, lsv.ty, lsv.t)
                for name, _ in self.arrays_of(lsv.ty.args[0], entry):
                    if allowed.get(name) != "ALL":
                        allowed.setdefault(name, []).append(mem[r])
            else:
                sv = self.ev_spec_value(m, es, old=entry)
                for name, _ in self.arrays_of(sv.ty, entry):
                    if allowed.get(name) != "ALL":
                        allowed.setdefault(name, []).append(r == sv.t)
        for name, term in o.heap.items():
            init = entry.heap.get(name, self._heap0.get(name))
            if init is None or term is init or z3.eq(term, init):
                continue
            a = allowed.get(name, [])
            if a == "ALL":
                continue
            cond = z3.And(0 <= r, r < entry.alloc, *[z3.Not(p) for p in a])
            self.oblige(o, None, z3.ForAll([r], z3.Implies(cond, term[r] == init[r])), "frame",
                        "frame[%s]" % name, fn, "only the declared objects are modified (%s)" % name)


# ---------------------------------------------------------------------------------------------- solving
def to_smt2(hyps, goal):
    s = z3.Solver()
    s.add(*hyps)
    s.add(z3.Not(goal))
    return s.to_smt2()


def run_cvc5(smt2, timeout_s, want_model=False):
    txt = smt2.replace("(check-sat)", "")
    txt = "(set-logic ALL)\n" + txt + "\n(check-sat)\n"
    with tempfile.NamedTemporaryFile("w", suffix=".smt2", delete=False, dir=os.environ.get("TMPDIR", "/tmp")) as f:
        f.write(txt)
        path = f.name
    try:
        p = subprocess.run(["/usr/bin/cvc5", "--strings-exp", "--tlimit=%d" % int(timeout_s * 1000), path],
                           capture_output=True, text=True, timeout=timeout_s + 5)
        out = (p.stdout or "").strip().splitlines()
        return out[0] if out else "unknown"
    except Exception:
        return "unknown"
    finally:
        os.unlink(path)


def discharge(ob, rlimit=0, timeout_ms=3000, use_cvc5=True, long_ms=90000):
    """decide one obligation; never maps unknown to a violation.
    1. z3 on the full quantified formula (short, then long budget);
    2. only if z3 cannot decide it: bounded instantiation - 'unsat' there is a proof, 'sat' a candidate
       counter-model (reported as failed, backend says so);
    3. cvc5 on the full formula for what is still open."""
    from .binst import bounded_check
    t0 = time.time()
    model = None
    ob.verdict = "unknown"
    def z3_try(budget, seed):
        nonlocal model
        s = z3.Solver()
        s.set("timeout", budget)
        s.set("random_seed", seed)
        s.add(*ob.hyps)
        s.add(z3.Not(ob.goal))
        r = s.check()
        ob.backend = "z3-" + z3.get_version_string()
        if r == z3.unsat:
            ob.verdict = "proved"
        elif r == z3.sat:
            ob.verdict = "failed"
            model = s.model()

    z3_try(timeout_ms, 0)
    if ob.verdict == "unknown":
        # z3's quantifier instantiation is sensitive to incidental term numbering: the same hypotheses asserted in another order in a
        # fresh context are often decided in milliseconds.  A small portfolio of permutations (same formulas: an 'unsat' is a proof)
        import random as _random
        for k in (1, 2, 3):
            try:
                c2 = z3.Context()
                hy = list(ob.hyps)
                _random.Random(k).shuffle(hy)
                s = z3.Solver(ctx=c2)
                s.set("timeout", timeout_ms)
                s.set("random_seed", k)
                s.add(*[h.translate(c2) for h in hy])
                s.add(z3.Not(ob.goal).translate(c2))
                r = s.check()
            except z3.Z3Exception:
                continue
            if r == z3.unsat:
                ob.verdict = "proved"
                ob.backend = "z3-%s(permuted)" % z3.get_version_string()
                break
    bi = None
    if ob.verdict == "unknown" and use_cvc5:
        # cvc5's quantifier instantiation is complementary to z3's: many obligations z3 leaves open are
        # decided by it in a fraction of a second
        cv = run_cvc5(to_smt2(ob.hyps, ob.goal), 20)
        if cv == "unsat":
            ob.verdict = "proved"
            ob.backend = "cvc5-1.0.3"
        elif cv == "sat":
            ob.verdict = "failed"
            ob.backend = "cvc5-1.0.3"
    if ob.verdict == "unknown":
        try:
            br, bm, info = bounded_check(ob.hyps, ob.goal)
        except z3.Z3Exception as e:
            br, bm, info = "unknown", None, {"error": str(e)[:200]}
        if br == "unsat":
            ob.verdict = "proved"
            ob.backend = "z3-%s+bounded-instantiation(%s)" % (z3.get_version_string(), info.get("qf_backend"))
        elif br == "sat":
            bi = (bm, info)
    if ob.verdict == "unknown" and long_ms > 1:
        # a candidate counter-model from bounded instantiation is only reported after the full formula has
        # resisted several more attempts (different seeds, one long run)
        # (budgets are sized so that a verdict does not flip when all cores are busy: the slowest obligation of the unchanged tree
        # needs about 25 s of the last run on an idle machine)
        for budget, seed in ((timeout_ms, 7), (timeout_ms * 2, 13), (long_ms, 1)):
            z3_try(budget, seed)
            if ob.verdict != "unknown":
                break
    if ob.verdict == "unknown" and bi is not None:
        ob.verdict = "failed"
        ob.backend = "bounded-instantiation(%s) candidate counter-model; full formula undecided by z3" % bi[1].get("qf_backend")
        model = bi[0]
    if model is not None:
        try:
            ob.model = {str(d): str(model[d])[:160] for d in model.decls() if d.arity() == 0 and
                        (d.name().startswith("p_") or d.name().startswith("k!") or d.name().startswith("sk!"))}
        except Exception:
            ob.model = None
    ob.time = time.time() - t0
    return ob


def check_satisfiable(hyps, timeout_ms=3000):
    """vacuity guard: the preconditions (and global facts) must be satisfiable"""
    from .binst import bounded_check
    s = z3.Solver()
    s.set("timeout", timeout_ms)
    s.add(*hyps)
    r = str(s.check())
    if r == "unknown":
        try:
            br, _, _ = bounded_check(hyps, z3.BoolVal(False), timeout_ms=5000)
        except z3.Z3Exception:
            br = "unknown"
        if br == "sat":
            return "sat(bounded-instantiation)"
        if br == "unsat":
            return "unsat"
        return "not-refuted"  # the prover cannot derive False from the preconditions
    return r


def exits_reachable(facts, exit_pcs, timeout_ms=1500, max_paths=6):
    """vacuity guard at the exits: 'unsat' only if the solver refutes the hypotheses of every exit path tried (then every
    postcondition holds vacuously); 'sat' / 'not-refuted' as soon as one exit path is not refuted"""
    if not exit_pcs:
        return "no-exit"
    for pc in exit_pcs[:max_paths]:
        s = z3.Solver()
        s.set("timeout", timeout_ms)
        s.add(*facts)
        s.add(*pc)
        r = str(s.check())
        if r != "unsat":
            return "sat" if r == "sat" else "not-refuted"
    return "unsat" if len(exit_pcs) <= max_paths else "not-refuted"
