import warnings; warnings.filterwarnings('ignore')
from rdkit import Chem, RDLogger
RDLogger.DisableLog('rdApp.*')
from synrbl.SynChemImputer.molecule_standardizer import MoleculeStandardizer
from synrbl.SynProcessor import RSMIDecomposer
ms=MoleculeStandardizer()
def comp(s):
    d=RSMIDecomposer.decompose(s); d.setdefault('Q',0); return d
import itertools, random
random.seed(3)
cands=['CC(O)(O)O','OC(O)(O)C','C(O)(O)(O)C','OC(C)(O)O','CC(O)(O)OC','OC(O)O','OC(O)(O)O','OCC(O)(O)O','OC(O)C(O)O','C=C(O)O','OC=CO','OC(O)=C','CC(O)=CC(O)(O)C','C=C(O)C(O)(O)C','[Na]OC(C)(O)C','CC([O-])(O)C','C=CO.CC(O)(O)C','OC1(O)CCCCC1','OC1=CCCCC1','Oc1ccccc1','CC(O)OC','CC(OC)(OC)C']
bad=0
for s in cands:
    m=Chem.MolFromSmiles(s)
    variants={s}
    for _ in range(6):
        variants.add(Chem.MolToSmiles(m, doRandom=True))
    for v in sorted(variants):
        try:
            out=ms(v)
            ok = Chem.MolFromSmiles(out) is not None and comp(out)==comp(v)
            idem = ms(out)==out if ok else None
            if not ok or not idem:
                bad+=1; print('VIOL', v, '->', out, comp(v), comp(out) if Chem.MolFromSmiles(out) else None, 'idem', idem)
        except Exception as e:
            bad+=1; print('EXC ', v, type(e).__name__, str(e)[:90])
print('bad',bad)
