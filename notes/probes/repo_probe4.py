import logging, json
logging.disable(logging.CRITICAL)
import warnings; warnings.filterwarnings('ignore')
from rdkit import Chem
import synrbl.SynUtils.functional_group_utils as fg
# C16: ring pattern on non-benzene aromatic
for smi in ['Oc1cccc2cccc12','O[c+]1cccccc1','Oc1ccc2ccccc2c1','Oc1cccccc1=O','OC1=CC=CC=CC1=O', 'Oc1ccccc1']:
    m=Chem.MolFromSmiles(smi)
    if m is None: print(smi,'invalid'); continue
    pat=Chem.MolFromSmiles('Oc1ccccc1')
    res=[]
    for a in m.GetAtoms():
        if a.GetSymbol()=='O':
            r=fg.pattern_match(m,a.GetIdx(),pat)
            ref=[mt for mt in m.GetSubstructMatches(pat) if a.GetIdx() in mt]
            res.append((a.GetIdx(), r[0], bool(ref), fg.is_functional_group(m,'phenol',a.GetIdx())))
    print(smi, Chem.MolToSmiles(m), res)
from synrbl import Balancer
b=Balancer(n_jobs=1)
def show(x):
    r=b.rebalance(x, output_dict=True)
    for row in r: print('  ', json.dumps(row))
# C02: marker substrings in input
show(['CC(=O)C.[H][H]>>CC(C)O', 'CC(=O)Cl.CO>>CC(=O)OC.[H][H]', 'CC=O.[H][H]>>CCO.O', 'CC(=O)OC.[H][H]>>CC(=O)O','C=C.[H][H].Cl>>CC.[H][H]', 'CCBr.OO>>CCO.OO'])
