import z3, time
# Probe A: compare_dicts verdict vs spec, maps as (dom, val) arrays over String keys
K=z3.StringSort()
def M(n): return z3.Array(n+'_dom',K,z3.BoolSort()), z3.Array(n+'_val',K,z3.IntSort())
rd,rv=M('r'); pd,pv=M('p')
k=z3.String('k')
def get0(d,v,k): return z3.If(d[k], v[k], 0)
keys_eq = z3.ForAll([k], rd[k]==pd[k])
r_sup = z3.ForAll([k], z3.Implies(pd[k], rd[k]))   # check_keys(reactant, product)
p_sup = z3.ForAll([k], z3.Implies(rd[k], pd[k]))
allge_p = z3.ForAll([k], z3.Implies(pd[k], rv[k]>=pv[k]))
allle_r = z3.ForAll([k], z3.Implies(rd[k], rv[k]<=pv[k]))
eq = z3.ForAll([k], z3.Implies(rd[k], rv[k]==pv[k]))
ge = z3.ForAll([k], z3.Implies(rd[k], rv[k]>=pv[k]))
le = z3.ForAll([k], z3.Implies(rd[k], rv[k]<=pv[k]))
S=z3.StringVal
res = z3.If(z3.Not(keys_eq),
        z3.If(z3.And(r_sup, z3.Not(p_sup)), z3.If(allge_p,S("Products"),S("Both")),
         z3.If(z3.And(p_sup, z3.Not(r_sup)), z3.If(allle_r,S("Reactants"),S("Both")), S("Both"))),
        z3.If(eq,S("Balance"), z3.If(ge,S("Products"), z3.If(le,S("Reactants"),S("Both")))))
# precondition: stored non-Q values > 0 ; Q nonzero
pre = z3.And(z3.ForAll([k], z3.Implies(rd[k], z3.If(k==S("Q"), rv[k]!=0, rv[k]>0))),
             z3.ForAll([k], z3.Implies(pd[k], z3.If(k==S("Q"), pv[k]!=0, pv[k]>0))))
spec_bal = z3.ForAll([k], get0(rd,rv,k)==get0(pd,pv,k))
spec_prod = z3.And(z3.ForAll([k], get0(rd,rv,k)>=get0(pd,pv,k)), z3.Not(spec_bal))  # missing on product side
for name,goal in [('Balance iff equal', (res==S("Balance"))==spec_bal),
                  ('Products => r>=p everywhere & !=', z3.Implies(res==S("Products"), spec_prod)),
                  ('r>=p & != => Products', z3.Implies(spec_prod, res==S("Products")))]:
    s=z3.Solver(); s.set('timeout',20000); s.add(pre, z3.Not(goal))
    t=time.time(); r=s.check(); print(name, r, round(time.time()-t,2))
    if r==z3.sat:
        m=s.model(); print(m)
