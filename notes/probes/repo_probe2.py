import logging, json, csv, sys
logging.disable(logging.CRITICAL)
from synrbl import Balancer
from synrbl.SynProcessor import RSMIDecomposer
rows=list(csv.DictReader(open('/repo/Data/Validation_set/validation_set.csv')))
print(len(rows), rows[0].keys())
b = Balancer(n_jobs=8)
st={}
res=b.rebalance([r['reaction'] for r in rows], output_dict=True, stats=st)
print(len(res), st)
def comp(s):
    d=RSMIDecomposer.decompose(s); d.setdefault('Q',0); return d
bad=0
for r in res:
    if r['solved']:
        a,bb=r['reaction'].split('>>')
        if comp(a)!=comp(bb):
            bad+=1; print(json.dumps(r))
print('bad',bad)
from collections import Counter
print(Counter((r['solved'], r.get('solved_by')) for r in res))
print(Counter(r.get('issue') for r in res if not r['solved']).most_common(12))
