import z3, time
K=z3.StringSort(); B=z3.BoolSort(); I=z3.IntSort()
Q=z3.StringVal("Q")
def M(n): return z3.Array(n+'_dom',K,B), z3.Array(n+'_val',K,I)
def get0(m,k): return z3.If(m[0][k], m[1][k], 0)
k=z3.String('k')
d=M('d'); rc=M('rc'); ratio=z3.Int('ratio')
pre=z3.And(
  z3.ForAll([k], z3.Implies(z3.And(rc[0][k], k!=Q), z3.And(d[0][k], d[1][k]>=rc[1][k], rc[1][k]>0))),
  d[0][Q], ratio>=1)
# loop: for k,v in rule.items(): if k in new: new[k]-=v*ratio; if new[k]==0 and k!='Q': del new[k]
done=z3.Array('done',K,B); new=M('new')
def Inv(done,new):
    return z3.And(
      z3.ForAll([k], z3.Implies(done[k], rc[0][k])),
      z3.ForAll([k], z3.Implies(done[k], get0(new,k)==get0(d,k)-ratio*rc[1][k])),
      z3.ForAll([k], z3.Implies(done[k], z3.Implies(new[0][k], z3.Or(k==Q, new[1][k]!=0)))),
      z3.ForAll([k], z3.Implies(z3.Not(done[k]), z3.And(new[0][k]==d[0][k], new[1][k]==d[1][k]))),
      new[0][Q])
def check(name, hyps, goal):
    s=z3.Solver(); s.set('timeout',30000); s.add(*hyps); s.add(z3.Not(goal))
    t=time.time(); r=s.check(); print(name, r, round(time.time()-t,2))
    if r==z3.sat: print(s.model())
# init: done = empty, new = d
empty=z3.K(K,False)
check('inv init', [pre, z3.ForAll([k], z3.Implies(d[0][k], z3.Or(k==Q, d[1][k]!=0)))], Inv(empty,d))
# preservation
kk=z3.String('kk'); v=rc[1][kk]
hyps=[pre, Inv(done,new), rc[0][kk], z3.Not(done[kk])]
nv = new[1][kk]-v*ratio
new1_val = z3.If(new[0][kk], z3.Store(new[1],kk,nv), new[1])
new1_dom = z3.If(z3.And(new[0][kk], nv==0, kk!=Q), z3.Store(new[0],kk,False), new[0])
check('inv pres', hyps, Inv(z3.Store(done,kk,True),(new1_dom,new1_val)))
# exit => post
post=z3.ForAll([k], get0(new,k)==get0(d,k)-ratio*get0(rc,k))
check('post', [pre, Inv(done,new), z3.ForAll([k], done[k]==rc[0][k])], post)
# mutated body: subtract v instead of v*ratio -> should be sat
nv2 = new[1][kk]-v
new2_val = z3.If(new[0][kk], z3.Store(new[1],kk,nv2), new[1])
new2_dom = z3.If(z3.And(new[0][kk], nv2==0, kk!=Q), z3.Store(new[0],kk,False), new[0])
check('MUTANT inv pres', hyps, Inv(z3.Store(done,kk,True),(new2_dom,new2_val)))
