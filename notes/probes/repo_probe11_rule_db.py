import warnings, io, contextlib, random, copy
warnings.filterwarnings('ignore')
from rdkit import RDLogger; RDLogger.DisableLog('rdApp.*')
from synrbl.SynRuleImputer.rule_data_manager import RuleImputeManager
from synrbl.SynProcessor import RSMIDecomposer
pool=[('H2O','O'),('H2O','[OH2]'),('water','O'),('NH3','N'),('H4N+','[NH4+]'),('bad','C(('),('Cl-','[Cl-]'),('HCl','Cl'),('x',''),('U','[U]'),('D2O','[2H]O[2H]')]
def inv(db):
    fs=[e['formula'] for e in db]; ss=[e['smiles'] for e in db]
    if len(set(fs))!=len(fs) or len(set(ss))!=len(ss): return 'dup'
    for e in db:
        c=RSMIDecomposer.decompose(e['smiles']); c.setdefault('Q',0)
        if c!=e['Composition'] or 'Q' not in e['Composition']: return 'comp '+str(e)
    return None
random.seed(5); bad=0
for t in range(3000):
    m=RuleImputeManager()
    for step in range(random.randint(1,8)):
        before=copy.deepcopy(m.database)
        op=random.choice(['add','adds','rm'])
        with contextlib.redirect_stdout(io.StringIO()):
            if op=='add':
                f,s=random.choice(pool)
                try: m.add_entry(f,s); 
                except ValueError:
                    if m.database!=before: bad+=1; print('changed on reject')
            elif op=='adds':
                es=[dict(formula=f,smiles=s) for f,s in random.sample(pool,3)]
                rej=m.add_entries(es)
            else:
                f=random.choice(pool)[0]; m.remove_entry(f)
                exp=[e for e in before if e['formula']!=f]
                if m.database!=exp: bad+=1; print('remove wrong',f,before,m.database)
        r=inv(m.database)
        if r: bad+=1; print('INV', r, m.database); break
print('bad',bad)
