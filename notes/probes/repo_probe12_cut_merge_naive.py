import warnings, csv, random, collections
warnings.filterwarnings('ignore')
from rdkit import Chem, RDLogger; RDLogger.DisableLog('rdApp.*')
import logging; logging.disable(logging.CRITICAL)
from synrbl.SynMCSImputer.structure import CompoundSet
from synrbl.SynMCSImputer.merge import merge

def nostereo(m):
    m=Chem.Mol(m); Chem.RemoveStereochemistry(m); return Chem.MolToSmiles(m)

def cut_and_merge(mol, bond):
    a,b=bond.GetBeginAtomIdx(), bond.GetEndAtomIdx()
    rw=Chem.RWMol(mol); rw.RemoveBond(a,b)
    frags=Chem.GetMolFrags(rw.GetMol(), asMols=False)
    if len(frags)!=2: return None
    cset=CompoundSet()
    for frag, (x,y) in zip(frags, [(a,b),(b,a)] if a in frags[0] else [(b,a),(a,b)]):
        # fragment molecule with renumbered atoms; open valence gets an implicit H (as the pipeline's missing parts do)
        em=Chem.RWMol(mol)
        keep=set(frag)
        for idx in sorted(set(range(mol.GetNumAtoms()))-keep, reverse=True):
            em.RemoveAtom(idx)
        fm=em.GetMol()
        try: Chem.SanitizeMol(fm)
        except Exception: return 'sanitize-frag'
        newidx=sorted(keep).index(x)
        c=cset.add_compound(Chem.MolToSmiles(fm, canonical=False) if False else fm, src_mol=mol)
        c.add_boundary(newidx, symbol=mol.GetAtomWithIdx(x).GetSymbol(), neighbor_index=y, neighbor_symbol=mol.GetAtomWithIdx(y).GetSymbol())
    try:
        res=merge(cset)
    except Exception as e:
        return 'EXC '+type(e).__name__+': '+str(e)[:60]
    out=res.mol
    try:
        Chem.SanitizeMol(out)
    except Exception as e:
        return 'INVALID'
    rules=[r.name for r in res.rules]
    same = nostereo(out)==nostereo(mol)
    heavy_ok = out.GetNumHeavyAtoms()==mol.GetNumHeavyAtoms()
    open_b = len(res.boundaries)
    return ('OK' if same else 'DIFF', tuple(rules), heavy_ok, open_b, nostereo(out) if not same else '')

rows=list(csv.DictReader(open('/repo/Data/Validation_set/validation_set.csv')))
random.seed(11)
smis=set()
for r in random.sample(rows, 400):
    for side in r['reaction'].split('>>'):
        for s in side.split('.'): smis.add(s)
smis=sorted(smis); random.shuffle(smis)
stat=collections.Counter(); ex={}
n=0
for s in smis[:600]:
    m=Chem.MolFromSmiles(s)
    if m is None or m.GetNumHeavyAtoms()<2 or m.GetNumHeavyAtoms()>30: continue
    for bnd in m.GetBonds():
        if bnd.IsInRing() or bnd.GetBondType()!=Chem.BondType.SINGLE: continue
        r=cut_and_merge(m,bnd)
        if r is None: continue
        n+=1
        key = r if isinstance(r,str) else (r[0], r[1], r[2], r[3])
        if isinstance(key,str) and key.startswith('EXC'): key=key[:40]
        stat[key]+=1
        ex.setdefault(key,(s,bnd.GetBeginAtomIdx(),bnd.GetEndAtomIdx(), r[-1] if not isinstance(r,str) else ''))
print('pairs',n)
for k,v in stat.most_common(30): print(v,k,ex[k])
