import logging, json
from synrbl import Balancer
from synrbl.SynProcessor import RSMIDecomposer
print(RSMIDecomposer.decompose('[U]'), RSMIDecomposer.decompose('[Th]'), RSMIDecomposer.decompose('[NH4+].[Cl-]'), RSMIDecomposer.decompose('*C'))
b = Balancer(n_jobs=1)
def show(x, **kw):
    st={}
    r=b.rebalance(x, output_dict=True, stats=st, **kw)
    for row in r: print(json.dumps(row))
    print('stats',st)
show(['[U]>>[Th]'])
show(['CCO>>CC(=O)O'])
show(['CCCCO>>CCCC(=O)O','CC(=O)OCC>>CC(=O)O'])
