# Hand-written VC for the final loop of Validator.check over a heap of row objects.
import z3, time
Ref=z3.DeclareSort('Ref'); S=z3.StringSort(); B=z3.BoolSort(); I=z3.IntSort()
def F(n,s): return z3.Array(n,Ref,s)
rows=z3.Array('rows',I,Ref); n=z3.Int('n')
# fields on entry (old) and current
f_old={k:F(k+'0',s) for k,s in dict(reaction=S,input=S,solved=B,solved_by=S,issue=S,label=S).items()}
f_cur={k:F(k,s) for k,s in dict(reaction=S,input=S,solved=B,solved_by=S,issue=S,label=S).items()}
unb=z3.Array('unb',I,S)           # unbalance list, unb[j] == CMP(old reaction of rows[j])
CMP=z3.Function('CMP',S,S)
method=z3.String('method'); ovr=z3.Bool('ovr'); msg_some=z3.Bool('msg_some'); msg=z3.String('msg')
i=z3.Int('i'); j=z3.Int('j'); j2=z3.Int('j2')
BAL=z3.StringVal("Balance"); CB=z3.StringVal("balanced"); E=z3.StringVal("")
def post(r, cur):
    newly=z3.And(z3.Not(f_old['solved'][r]), CMP(f_old['reaction'][r])==BAL, f_old['label'][r]==CB)
    solved=z3.Or(f_old['solved'][r], newly)
    return z3.And(cur['solved'][r]==solved,
        cur['solved_by'][r]==z3.If(newly, method, f_old['solved_by'][r]),
        cur['reaction'][r]==z3.If(z3.And(ovr, z3.Not(solved)), f_old['input'][r], f_old['reaction'][r]),
        cur['issue'][r]==z3.If(z3.And(ovr, z3.Not(solved), msg_some, f_old['issue'][r]==E), msg, f_old['issue'][r]),
        cur['input'][r]==f_old['input'][r], cur['label'][r]==f_old['label'][r])
def unchanged(r, cur): return z3.And(*[cur[k][r]==f_old[k][r] for k in f_cur])
distinct=z3.ForAll([j,j2], z3.Implies(z3.And(0<=j,j<j2,j2<n), rows[j]!=rows[j2]))
pre=z3.And(n>=0, distinct, z3.ForAll([j], z3.Implies(z3.And(0<=j,j<n), unb[j]==CMP(f_old['reaction'][rows[j]]))))
def Inv(i,cur):
    return z3.And(0<=i, i<=n,
      z3.ForAll([j], z3.Implies(z3.And(0<=j,j<i), post(rows[j],cur))),
      z3.ForAll([j], z3.Implies(z3.And(i<=j,j<n), unchanged(rows[j],cur))))
# body on row r=rows[i], b=unb[i]
r=rows[i]; b=unb[i]
c1=z3.And(b==BAL, f_cur['label'][r]==CB, z3.Not(f_cur['solved'][r]))
solved1=z3.If(c1, z3.Store(f_cur['solved'],r,True), f_cur['solved'])
sby1=z3.If(c1, z3.Store(f_cur['solved_by'],r,method), f_cur['solved_by'])
c2=z3.And(ovr, z3.Not(solved1[r]))
reac1=z3.If(c2, z3.Store(f_cur['reaction'],r,f_cur['input'][r]), f_cur['reaction'])
c3=z3.And(c2, msg_some, f_cur['issue'][r]==E)
iss1=z3.If(c3, z3.Store(f_cur['issue'],r,msg), f_cur['issue'])
nxt=dict(f_cur); nxt.update(solved=solved1, solved_by=sby1, reaction=reac1, issue=iss1)
def check(name,hyps,goal):
    s=z3.Solver(); s.set('timeout',60000); s.add(*hyps); s.add(z3.Not(goal))
    t=time.time(); res=s.check(); print(name,res,round(time.time()-t,2))
check('init',[pre],Inv(z3.IntVal(0),f_old))
check('preserve',[pre,Inv(i,f_cur),i<n],Inv(i+1,nxt))
check('exit',[pre,Inv(i,f_cur),i>=n], z3.ForAll([j], z3.Implies(z3.And(0<=j,j<n), post(rows[j],f_cur))))
# C01 consequence: newly solved rows have CMP == Balance
k=z3.Int('k')
check('C01-row',[pre,Inv(n,f_cur),0<=k,k<n, f_cur['solved'][rows[k]], z3.Not(f_old['solved'][rows[k]])],
      CMP(f_cur['reaction'][rows[k]])==BAL)
# mutant: 'and' -> 'or' in c1
c1m=z3.And(z3.Or(b==BAL, f_cur['label'][r]==CB), z3.Not(f_cur['solved'][r]))
solved1m=z3.If(c1m, z3.Store(f_cur['solved'],r,True), f_cur['solved'])
sby1m=z3.If(c1m, z3.Store(f_cur['solved_by'],r,method), f_cur['solved_by'])
c2m=z3.And(ovr, z3.Not(solved1m[r]))
reac1m=z3.If(c2m, z3.Store(f_cur['reaction'],r,f_cur['input'][r]), f_cur['reaction'])
iss1m=z3.If(z3.And(c2m,msg_some,f_cur['issue'][r]==E), z3.Store(f_cur['issue'],r,msg), f_cur['issue'])
nm=dict(f_cur); nm.update(solved=solved1m, solved_by=sby1m, reaction=reac1m, issue=iss1m)
check('MUTANT preserve',[pre,Inv(i,f_cur),i<n],Inv(i+1,nm))
