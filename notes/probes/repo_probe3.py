import logging, json, tempfile, shutil, os
logging.disable(logging.CRITICAL)
import warnings; warnings.filterwarnings('ignore')
from synrbl import Balancer
from synrbl.SynUtils.chem_utils import remove_atom_mapping, normalize_smiles, wc_similarity
from synrbl.SynChemImputer.molecule_standardizer import MoleculeStandardizer
b = Balancer(n_jobs=1)
def show(x, bal=b, **kw):
    st={}
    try:
        r=bal.rebalance(x, output_dict=True, stats=st, **kw)
    except Exception as e:
        print('EXC', type(e), e); return
    for row in r: print('  ', json.dumps(row))
    print('  stats',st)
print('C05 unparsable middle'); show(['CC(=O)OCC>>CC(=O)O','C(C>>CC','CCO>>CCO'])
print('C05 no sep'); show(['CC(=O)OCC>>CC(=O)O','CCO','CCO>>CCO'])
print('C05 no sep batch1'); show(['CC(=O)OCC>>CC(=O)O','CCO','CCO>>CCO'], batch_size=1)
print('C15', remove_atom_mapping('c1:c:c:c:c:c:1>>c1ccccc1'), remove_atom_mapping('[CH3:1][OH:2].[Na+:3]'))
print('C17', normalize_smiles('CCCO.CCOC>>CC'), normalize_smiles('CCOC.CCCO>>CC'), wc_similarity('CCCO.CCOC>>CC','CCOC.CCCO>>CC'))
ms=MoleculeStandardizer()
for s in ['C=C[O-]','CC(O)(O)O','C=CO','CC(O)(O)C','OC(O)=CC=C(O)O']:
    try: print('C20', s, '->', ms(s))
    except Exception as e: print('C20', s, 'EXC', type(e).__name__, str(e)[:100])
d=tempfile.mkdtemp()
b1=Balancer(n_jobs=1, cache=True, cache_dir=d, confidence_threshold=0)
print('C12 t=0'); show(['CC(=O)OCC>>CC(=O)O'], bal=b1, batch_size=10)
b2=Balancer(n_jobs=1, cache=True, cache_dir=d, confidence_threshold=0.9)
print('C12 t=.9 cached'); show(['CC(=O)OCC>>CC(=O)O'], bal=b2, batch_size=10)
b3=Balancer(n_jobs=1, confidence_threshold=0.9)
print('C12 t=.9 nocache'); show(['CC(=O)OCC>>CC(=O)O'], bal=b3, batch_size=10)
print(os.listdir(d))
shutil.rmtree(d)
