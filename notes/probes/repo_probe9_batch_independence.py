import logging, json, csv, random
logging.disable(logging.CRITICAL)
import warnings; warnings.filterwarnings('ignore')
from synrbl import Balancer
rows=list(csv.DictReader(open('/repo/Data/Validation_set/validation_set.csv')))
random.seed(7)
sample=[r['reaction'] for r in random.sample(rows, 80)]
b=Balancer(n_jobs=1)
keys=['reaction','solved','solved_by','confidence','rules','issue']
def norm(r): return {k:r.get(k) for k in keys}
st_all={}
batch=[norm(r) for r in b.rebalance(sample, output_dict=True, stats=st_all)]
st3={}
batch3=[norm(r) for r in b.rebalance(sample, output_dict=True, stats=st3, batch_size=7)]
rev=[norm(r) for r in b.rebalance(sample[::-1], output_dict=True)][::-1]
single=[]
for s in sample:
    single.append(norm(b.rebalance(s, output_dict=True)[0]))
d1=sum(a!=c for a,c in zip(batch,single)); d2=sum(a!=c for a,c in zip(batch,batch3)); d3=sum(a!=c for a,c in zip(batch,rev))
print('diff batch-vs-single',d1,'batch-vs-batch7',d2,'batch-vs-reversed',d3)
for a,c in zip(batch,single):
    if a!=c: print(json.dumps(a)); print(json.dumps(c)); print()
print(st_all); print(st3)
