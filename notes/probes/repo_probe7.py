import logging, json, copy
logging.disable(logging.CRITICAL)
import warnings; warnings.filterwarnings('ignore')
from synrbl import Balancer
b=Balancer(n_jobs=1)
for rx in ['CC(=O)OC.NC>>CC(=O)NC.Cl', 'OCC(O)CO.Cl>>CCCCC', 'CCO>>CC(=O)O']:
    st={}
    rows=b._Balancer__run_pipeline([{'reaction':rx}], st)
    r=rows[0]
    print(rx); print('  reaction', r['reaction'], 'solved', r['solved'], 'issue', r.get('issue'))
    print('  reactants field:', r['reactants'], '| products field:', r['products'], '| label', r['carbon_balance_check'])
    m=r.get('mcs')
    if m: print('  mcs sorted_reactants', m.get('sorted_reactants'), 'mcs_results', m.get('mcs_results'), 'smiles', m.get('smiles'))
    print('  stats', st)
    try:
        json.dumps(rows); print('  json ok; types', {k:type(v).__name__ for k,v in r.items()})
    except Exception as e: print('  json FAIL', e)
