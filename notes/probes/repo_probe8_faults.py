import logging, json, copy, random
logging.disable(logging.CRITICAL)
import warnings; warnings.filterwarnings('ignore')
from rdkit.Chem import rdFMCS
from synrbl import Balancer
import synrbl.SynMCSImputer.SubStructure.mcs_graph_detector as det
import synrbl.SynMCSImputer.SubStructure.mcs_process as mp
from synrbl.SynProcessor import RSMIDecomposer

rxns=['CC(=O)OCC.NCc1ccccc1>>CC(=O)NCc1ccccc1','CC(=O)OCC>>CC(=O)O','CCOC(=O)CC(=O)OCC>>OC(=O)CC(=O)O','c1ccccc1C(=O)OC.N>>c1ccccc1C(=O)N', 'CCO>>CCO']
b=Balancer(n_jobs=1)
base=b.rebalance(rxns, output_dict=True)
for r in base: print('BASE', json.dumps(r))

# (1) alignment: cancel the k-th FindMCS call inside the iterative loop
real=rdFMCS.FindMCS
class Canc:
    canceled=True; numAtoms=0; smartsString=''
def run_with_cancel(kset):
    cnt={'n':0}
    def fake(mols, params=None):
        cnt['n']+=1
        if cnt['n'] in kset: return Canc()
        return real(mols, params)
    det.rdFMCS.FindMCS=fake
    try:
        rows=b._Balancer__run_pipeline([{'reaction':rxns[0]}], {})
    finally:
        det.rdFMCS.FindMCS=real
    return rows[0]
for k in [{3},{4},{3,4},{1},{2}]:
    r=run_with_cancel(k)
    m=r.get('mcs') or {}
    print('CANCEL',k,'solved',r['solved'],'issue',r.get('issue'),'| sorted', m.get('sorted_reactants'),'mcs', m.get('mcs_results'), '| reaction', r['reaction'])

# (4) random timeouts of single_mcs_safe / failures in find graph
real_safe=mp.single_mcs_safe
def comp(s):
    d=RSMIDecomposer.decompose(s); d.setdefault('Q',0); return d
random.seed(1)
bad=0
for trial in range(12):
    def flaky(data_dict, job_timeout=2, id_col="id", issue_col="issue", **kw):
        if random.random()<0.4:
            return {id_col:data_dict[id_col],"mcs_results":[],"sorted_reactants":[],issue_col:"MCS search terminated by timeout."}
        return real_safe(data_dict, job_timeout=job_timeout, id_col=id_col, issue_col=issue_col, **kw)
    mp.single_mcs_safe=flaky
    try:
        out=b.rebalance(rxns, output_dict=True)
    finally:
        mp.single_mcs_safe=real_safe
    if len(out)!=len(rxns): print('ROW LOST', len(out)); bad+=1; continue
    for o,bs,rx in zip(out,base,rxns):
        if o['solved']:
            l,rr=o['reaction'].split('>>')
            if comp(l)!=comp(rr): print('UNBALANCED SOLVED',o); bad+=1
        else:
            if o['reaction']!=o['input_reaction'] or not o.get('issue'): print('BAD DECLINE',o); bad+=1
print('fault trials bad=',bad)
