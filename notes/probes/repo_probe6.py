import logging, json
logging.disable(logging.CRITICAL)
import warnings; warnings.filterwarnings('ignore')
from synrbl import Balancer
b=Balancer(n_jobs=1)
def show(x):
    st={}
    r=b.rebalance(x, output_dict=True, stats=st)
    for row in r: print('  ', json.dumps(row))
    print('  ', st)
print('C02 peroxide given in products'); show(['CCO.OO>>CC=O.OO', 'CCO>>CC=O'])
print('C14 order'); show(['CC.O>>CC.[H][H]', 'CC.O>>[H][H].CC'])
print('C14 b'); show(['CCO>>CC=O.[H][H].O', 'CCO>>[H][H].CC=O.O', 'OCC>>CC=O'])
print('C02 c'); show(['CC(C)O.OOC(C)(C)C>>CC(C)=O.OOC(C)(C)C'])
