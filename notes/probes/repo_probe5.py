import logging, json, math
logging.disable(logging.CRITICAL)
import warnings; warnings.filterwarnings('ignore')
import numpy as np
from synrbl import Balancer
r=Balancer(n_jobs=1).rebalance('CC(=O)OCC>>CC(=O)O', output_dict=True)[0]
c=r['confidence']; print(repr(c))
for t in [c, math.nextafter(c,1.0), math.nextafter(c,0.0), c+1e-9, 0.156, 0.1560001]:
    rr=Balancer(n_jobs=1, confidence_threshold=t).rebalance('CC(=O)OCC>>CC(=O)O', output_dict=True)[0]
    print(repr(t), 'c>=t' , c>=t, 'solved', rr['solved'], rr.get('issue'))
