import z3, time
a,b=z3.Strings('a b')
H=z3.StringVal(".[H]")
dot=z3.StringVal(".")
s=z3.Solver(); s.set('timeout',20000)
s.add(z3.Not(z3.Contains(a,dot)), z3.Not(z3.Contains(b,dot)), z3.Length(a)>0, z3.Length(b)>0)
s.add(z3.Contains(z3.Concat(a,dot,b),H) != z3.Contains(z3.Concat(b,dot,a),H))
t=time.time(); print(s.check(), round(time.time()-t,2)); print(s.model())
# proof direction: if neither a nor b starts with "[H]" then no marker
s=z3.Solver(); s.set('timeout',20000)
s.add(z3.Not(z3.Contains(a,dot)), z3.Not(z3.Contains(b,dot)))
s.add(z3.Not(z3.PrefixOf(z3.StringVal("[H]"),b)))
s.add(z3.Contains(z3.Concat(a,dot,b),H))
t=time.time(); print(s.check(), round(time.time()-t,2))
