from typing import Dict
from synrbl.SynProcessor.rsmi_comparator import RSMIComparator
_real = RSMIComparator.compare_dicts

def compare_dicts(reactant: Dict[str, int], product: Dict[str, int]) -> str:
    """
    pre: all(v > 0 for v in reactant.values()) and all(v > 0 for v in product.values())
    post: (__return__ == "Balance") == (reactant == product)
    post: __return__ != "Products" or all(reactant.get(k, 0) >= v for k, v in product.items())
    """
    return _real(reactant, product)

def bad(reactant: Dict[str, int], product: Dict[str, int]) -> str:
    """
    pre: all(v > 0 for v in reactant.values()) and all(v > 0 for v in product.values())
    post: __return__ != "Both"
    """
    return _real(reactant, product)
